// Package automata is engine E3: on-the-fly determinisation of a compiled
// regexp/syntax.Prog, reference NFAs, a KMP automaton and a product search that
// visits every reachable product state over a finite alphabet.
package automata

import (
	"regexp"
	"regexp/syntax"
	"sort"
	"strings"
	"unicode"
)

// Automaton is a deterministic automaton over runes with acceptance evaluated
// at end of input.
type Automaton interface {
	Start() int
	Step(s int, c rune) int
	AcceptEnd(s int) bool
	NumStates() int
}

// Alphabet is all graphic ASCII characters 0x21..0x7E.
func Alphabet() []rune {
	var a []rune
	for c := rune(0x21); c <= 0x7E; c++ {
		a = append(a, c)
	}
	return a
}

// ---------------------------------------------------------------------------
// Implementation side: compiled Prog -> DFA for unanchored boolean matching.

// ProgDFA simulates regexp.(*Regexp).MatchString for the program of re.
type ProgDFA struct {
	prog   *syntax.Prog
	keys   map[string]int
	states []progState
	trans  map[int64]int
	accEnd map[int]bool
}

type progState struct {
	pcs     []uint32 // entry pcs (not closed), sorted
	prev    int8     // 0 begin of text, 1 word char, 2 non-word char
	matched bool
}

const (
	prevBegin = iota
	prevWord
	prevNonWord
)

func prevRune(p int8) rune {
	switch p {
	case prevBegin:
		return -1
	case prevWord:
		return 'a'
	default:
		return '!'
	}
}

func classOf(c rune) int8 {
	if syntax.IsWordChar(c) {
		return prevWord
	}
	return prevNonWord
}

// NewProgDFA compiles the source of re exactly as regexp.Compile does.
func NewProgDFA(re *regexp.Regexp) (*ProgDFA, error) {
	rx, err := syntax.Parse(re.String(), syntax.Perl)
	if err != nil {
		return nil, err
	}
	prog, err := syntax.Compile(rx.Simplify())
	if err != nil {
		return nil, err
	}
	d := &ProgDFA{prog: prog, keys: map[string]int{}, trans: map[int64]int{}, accEnd: map[int]bool{}}
	d.intern(progState{prev: prevBegin})
	return d, nil
}

func (d *ProgDFA) intern(s progState) int {
	var sb strings.Builder
	if s.matched {
		sb.WriteString("M")
		s.pcs, s.prev = nil, 0
	} else {
		sb.WriteByte(byte('0' + s.prev))
		for _, pc := range s.pcs {
			sb.WriteByte(',')
			sb.WriteString(itoa(int(pc)))
		}
	}
	k := sb.String()
	if id, ok := d.keys[k]; ok {
		return id
	}
	id := len(d.states)
	d.keys[k] = id
	d.states = append(d.states, s)
	return id
}

func itoa(n int) string {
	if n == 0 {
		return "0"
	}
	var b [12]byte
	i := len(b)
	for n > 0 {
		i--
		b[i] = byte('0' + n%10)
		n /= 10
	}
	return string(b[i:])
}

// closure follows empty transitions from the entry pcs (plus the start pc:
// unanchored search restarts at every position) under the given empty-width
// context.  It returns the consuming instructions reached and whether a match
// instruction was reached.
func (d *ProgDFA) closure(entry []uint32, flags syntax.EmptyOp) (cons []uint32, matched bool) {
	seen := map[uint32]bool{}
	var stack []uint32
	push := func(pc uint32) {
		if !seen[pc] {
			seen[pc] = true
			stack = append(stack, pc)
		}
	}
	for _, pc := range entry {
		push(pc)
	}
	push(uint32(d.prog.Start))
	for len(stack) > 0 {
		pc := stack[len(stack)-1]
		stack = stack[:len(stack)-1]
		i := &d.prog.Inst[pc]
		switch i.Op {
		case syntax.InstAlt, syntax.InstAltMatch:
			push(i.Out)
			push(i.Arg)
		case syntax.InstCapture, syntax.InstNop:
			push(i.Out)
		case syntax.InstEmptyWidth:
			if syntax.EmptyOp(i.Arg)&^flags == 0 {
				push(i.Out)
			}
		case syntax.InstMatch:
			matched = true
		case syntax.InstFail:
		default:
			cons = append(cons, pc)
		}
	}
	return cons, matched
}

// Start implements Automaton.
func (d *ProgDFA) Start() int { return 0 }

// NumStates implements Automaton.
func (d *ProgDFA) NumStates() int { return len(d.states) }

// Step implements Automaton.
func (d *ProgDFA) Step(s int, c rune) int {
	k := int64(s)<<8 | int64(c)
	if t, ok := d.trans[k]; ok {
		return t
	}
	st := d.states[s]
	var t int
	if st.matched {
		t = s
	} else {
		cons, matched := d.closure(st.pcs, syntax.EmptyOpContext(prevRune(st.prev), c))
		if matched {
			t = d.intern(progState{matched: true})
		} else {
			set := map[uint32]bool{}
			for _, pc := range cons {
				i := &d.prog.Inst[pc]
				if i.MatchRune(c) {
					set[i.Out] = true
				}
			}
			pcs := make([]uint32, 0, len(set))
			for pc := range set {
				pcs = append(pcs, pc)
			}
			sort.Slice(pcs, func(a, b int) bool { return pcs[a] < pcs[b] })
			t = d.intern(progState{pcs: pcs, prev: classOf(c)})
		}
	}
	d.trans[k] = t
	return t
}

// AcceptEnd implements Automaton.
func (d *ProgDFA) AcceptEnd(s int) bool {
	if v, ok := d.accEnd[s]; ok {
		return v
	}
	st := d.states[s]
	v := st.matched
	if !v {
		_, v = d.closure(st.pcs, syntax.EmptyOpContext(prevRune(st.prev), -1))
	}
	d.accEnd[s] = v
	return v
}

// ---------------------------------------------------------------------------
// Trivial automata.

// Const accepts everything or nothing.
type Const bool

// Start implements Automaton.
func (Const) Start() int { return 0 }

// Step implements Automaton.
func (Const) Step(int, rune) int { return 0 }

// AcceptEnd implements Automaton.
func (c Const) AcceptEnd(int) bool { return bool(c) }

// NumStates implements Automaton.
func (Const) NumStates() int { return 1 }

// ---------------------------------------------------------------------------
// Reference side: epsilon-NFA with "only at end of input" epsilon edges.

// CharSet is a set of ASCII characters.
type CharSet [2]uint64

// Add adds c.
func (s *CharSet) Add(c rune) {
	if c >= 0 && c < 128 { // a character outside ASCII is outside the alphabet: the edge can never be taken
		s[c>>6] |= 1 << (uint(c) & 63)
	}
}

// Has reports membership.
func (s *CharSet) Has(c rune) bool { return c >= 0 && c < 128 && s[c>>6]&(1<<(uint(c)&63)) != 0 }

// AnyChar contains every ASCII character.
var AnyChar = CharSet{^uint64(0), ^uint64(0)}

type nfaEdge struct {
	set CharSet
	to  int
}

// NFA is built by the reference constructions.
type NFA struct {
	trans  [][]nfaEdge
	eps    [][]int
	epsEnd [][]int
	final  int
}

// NewState adds a state.
func (n *NFA) NewState() int {
	n.trans = append(n.trans, nil)
	n.eps = append(n.eps, nil)
	n.epsEnd = append(n.epsEnd, nil)
	return len(n.trans) - 1
}

// Edge adds a character edge.
func (n *NFA) Edge(from int, set CharSet, to int) {
	n.trans[from] = append(n.trans[from], nfaEdge{set, to})
}

// Eps adds an epsilon edge.
func (n *NFA) Eps(from, to int) { n.eps[from] = append(n.eps[from], to) }

// EpsEnd adds an epsilon edge that may only be taken at end of input.
func (n *NFA) EpsEnd(from, to int) { n.epsEnd[from] = append(n.epsEnd[from], to) }

// SetFinal sets the accepting state.
func (n *NFA) SetFinal(s int) { n.final = s }

// SubsetDFA determinises an NFA on the fly.
type SubsetDFA struct {
	n      *NFA
	keys   map[string]int
	states [][]int
	trans  map[int64]int
}

// Determinise returns the on-the-fly subset automaton of n with start state 0.
func Determinise(n *NFA) *SubsetDFA {
	d := &SubsetDFA{n: n, keys: map[string]int{}, trans: map[int64]int{}}
	d.intern(d.close([]int{0}, false))
	return d
}

func (d *SubsetDFA) close(set []int, atEnd bool) []int {
	seen := map[int]bool{}
	stack := append([]int{}, set...)
	for _, s := range set {
		seen[s] = true
	}
	for len(stack) > 0 {
		s := stack[len(stack)-1]
		stack = stack[:len(stack)-1]
		for _, t := range d.n.eps[s] {
			if !seen[t] {
				seen[t] = true
				stack = append(stack, t)
			}
		}
		if atEnd {
			for _, t := range d.n.epsEnd[s] {
				if !seen[t] {
					seen[t] = true
					stack = append(stack, t)
				}
			}
		}
	}
	out := make([]int, 0, len(seen))
	for s := range seen {
		out = append(out, s)
	}
	sort.Ints(out)
	return out
}

func (d *SubsetDFA) intern(set []int) int {
	var sb strings.Builder
	for _, s := range set {
		sb.WriteString(itoa(s))
		sb.WriteByte(',')
	}
	k := sb.String()
	if id, ok := d.keys[k]; ok {
		return id
	}
	id := len(d.states)
	d.keys[k] = id
	d.states = append(d.states, set)
	return id
}

// Start implements Automaton.
func (d *SubsetDFA) Start() int { return 0 }

// NumStates implements Automaton.
func (d *SubsetDFA) NumStates() int { return len(d.states) }

// Step implements Automaton.
func (d *SubsetDFA) Step(s int, c rune) int {
	k := int64(s)<<8 | int64(c)
	if t, ok := d.trans[k]; ok {
		return t
	}
	var next []int
	seen := map[int]bool{}
	for _, q := range d.states[s] {
		for _, e := range d.n.trans[q] {
			if e.set.Has(c) && !seen[e.to] {
				seen[e.to] = true
				next = append(next, e.to)
			}
		}
	}
	t := d.intern(d.close(next, false))
	d.trans[k] = t
	return t
}

// AcceptEnd implements Automaton.
func (d *SubsetDFA) AcceptEnd(s int) bool {
	for _, q := range d.close(d.states[s], true) {
		if q == d.n.final {
			return true
		}
	}
	return false
}

// ---------------------------------------------------------------------------
// KMP automaton: "the lower-cased input contains needle".

// KMP tracks the longest prefix of the needle that is a suffix of the
// lower-cased input; once complete it stays complete.
type KMP struct {
	needle []rune
	fail   []int
}

// NewKMP builds the automaton for needle (which must already be lower case).
func NewKMP(needle string) *KMP {
	r := []rune(needle)
	f := make([]int, len(r)+1)
	k := 0
	for i := 1; i < len(r); i++ {
		for k > 0 && r[i] != r[k] {
			k = f[k]
		}
		if r[i] == r[k] {
			k++
		}
		f[i+1] = k
	}
	return &KMP{needle: r, fail: f}
}

// Start implements Automaton.
func (k *KMP) Start() int { return 0 }

// NumStates implements Automaton.
func (k *KMP) NumStates() int { return len(k.needle) + 1 }

// Step implements Automaton.
func (k *KMP) Step(s int, c rune) int {
	if s == len(k.needle) {
		return s
	}
	c = unicode.ToLower(c)
	for s > 0 && k.needle[s] != c {
		s = k.fail[s]
	}
	if k.needle[s] == c {
		s++
	}
	return s
}

// AcceptEnd reports whether the needle has been seen.
func (k *KMP) AcceptEnd(s int) bool { return s == len(k.needle) }

// ---------------------------------------------------------------------------
// Product search.

// ProductStats reports what a product search covered.
// Fold feeds the lower-cased character to A.
type Fold struct{ A Automaton }

// Start implements Automaton.
func (f Fold) Start() int { return f.A.Start() }

// NumStates implements Automaton.
func (f Fold) NumStates() int { return f.A.NumStates() }

// Step implements Automaton.
func (f Fold) Step(s int, c rune) int {
	if c >= 'A' && c <= 'Z' {
		c += 'a' - 'A'
	}
	return f.A.Step(s, c)
}

// AcceptEnd implements Automaton.
func (f Fold) AcceptEnd(s int) bool { return f.A.AcceptEnd(s) }

type ProductStats struct {
	States      int
	Transitions int
	CapHit      bool
}

type prodNode struct {
	parent int
	c      rune
}

// Product explores every reachable state of the synchronous product of the
// automata over the alphabet, breadth first.  visit is called once per product
// state with the component states and a function that renders the shortest
// string reaching it; it returns false to stop expanding that state (its
// successors are then not generated).  maxStates caps the search.
func Product(autos []Automaton, alphabet []rune, maxStates int, visit func(st []int, witness func() string) bool) ProductStats {
	var stats ProductStats
	n := len(autos)
	keyOf := func(st []int) string {
		var sb strings.Builder
		for _, s := range st {
			sb.WriteString(itoa(s))
			sb.WriteByte('|')
		}
		return sb.String()
	}
	ids := map[string]int{}
	var nodes []prodNode
	var comps [][]int
	add := func(st []int, parent int, c rune) (int, bool) {
		k := keyOf(st)
		if id, ok := ids[k]; ok {
			return id, false
		}
		id := len(nodes)
		ids[k] = id
		nodes = append(nodes, prodNode{parent, c})
		comps = append(comps, append([]int{}, st...))
		return id, true
	}
	witness := func(id int) func() string {
		return func() string {
			var rs []rune
			for id := id; id > 0; id = nodes[id].parent {
				rs = append(rs, nodes[id].c)
			}
			for i, j := 0, len(rs)-1; i < j; i, j = i+1, j-1 {
				rs[i], rs[j] = rs[j], rs[i]
			}
			return string(rs)
		}
	}
	start := make([]int, n)
	for i, a := range autos {
		start[i] = a.Start()
	}
	add(start, -1, 0)
	next := make([]int, n)
	for head := 0; head < len(nodes); head++ {
		st := comps[head]
		stats.States++
		if !visit(st, witness(head)) {
			continue
		}
		for _, c := range alphabet {
			for i, a := range autos {
				next[i] = a.Step(st[i], c)
			}
			stats.Transitions++
			if len(nodes) >= maxStates {
				if _, ok := ids[keyOf(next)]; !ok {
					stats.CapHit = true
					continue
				}
			}
			add(next, head, c)
		}
	}
	return stats
}
