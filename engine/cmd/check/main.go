// Command check runs one property check: check <Cnn> <quick|thorough> [--replay file].
package main

import (
	"fmt"
	"os"

	"verif/props"
)

func main() {
	if len(os.Args) < 3 {
		fmt.Fprintln(os.Stderr, "usage: check <Cnn> <quick|thorough> [--replay file]")
		os.Exit(2)
	}
	replay := ""
	for i := 3; i < len(os.Args); i++ {
		if os.Args[i] == "--replay" && i+1 < len(os.Args) {
			replay = os.Args[i+1]
			i++
		}
	}
	os.Exit(props.Main(os.Args[1], os.Args[2], replay))
}
