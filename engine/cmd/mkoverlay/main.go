// Command mkoverlay generates a `go build -overlay` file that
//
//  1. adds the virtual package github.com/AdguardTeam/urlfilter/verifshim
//     (sources in -shim) inside the repository module, and
//  2. replaces every non-test .go file of the repository that imports "sync",
//     "sync/atomic" or golibs/syncutil by a copy whose import line points to
//     the shim.
//
// Nothing under -repo is written.  Extra "path=replacement" pairs may be given
// with -replace to inject candidate changes (used by the mutant self-test).
package main

import (
	"encoding/json"
	"flag"
	"fmt"
	"os"
	"path/filepath"
	"regexp"
	"strings"
)

var (
	reSync     = regexp.MustCompile(`(?m)^(\s*)(?:sync\s+)?"sync"\s*$`)
	reAtomic   = regexp.MustCompile(`(?m)^(\s*(?:import\s+)?)(?:atomic\s+)?"sync/atomic"\s*$`)
	reAtomicAs = regexp.MustCompile(`(?m)^(\s*(?:import\s+)?)(\w+)\s+"sync/atomic"\s*$`)
	reSyncutil = regexp.MustCompile(`(?m)^(\s*)(?:syncutil\s+)?"github\.com/AdguardTeam/golibs/syncutil"\s*$`)
)

const shimPath = "github.com/AdguardTeam/urlfilter/verifshim"

type multi []string

func (m *multi) String() string     { return strings.Join(*m, ",") }
func (m *multi) Set(s string) error { *m = append(*m, s); return nil }

func main() {
	repo := flag.String("repo", "/repo", "repository root")
	shim := flag.String("shim", "", "directory with shim sources")
	out := flag.String("out", "", "work directory")
	noShim := flag.Bool("noshim", false, "do not rewrite sync imports (free-running builds)")
	var repl multi
	flag.Var(&repl, "replace", "repoRelativePath=fileWithNewContent (may repeat)")
	flag.Parse()

	replace := map[string]string{}
	replaced := map[string]string{}
	for _, r := range repl {
		k, v, ok := strings.Cut(r, "=")
		if !ok {
			fatal("bad -replace %q", r)
		}
		replaced[filepath.Join(*repo, k)] = v
	}

	rewritten := []string{}
	err := filepath.Walk(*repo, func(p string, info os.FileInfo, err error) error {
		if err != nil {
			return err
		}
		if info.IsDir() {
			if n := info.Name(); n == ".git" || n == "testdata" || n == "vendor" {
				return filepath.SkipDir
			}
			return nil
		}
		if !strings.HasSuffix(p, ".go") || strings.HasSuffix(p, "_test.go") {
			return nil
		}
		src := p
		if r, ok := replaced[p]; ok {
			src = r
		}
		b, err := os.ReadFile(src)
		if err != nil {
			return err
		}
		s := string(b)
		ns := s
		if !*noShim {
			ns = reSync.ReplaceAllString(ns, `${1}sync "`+shimPath+`"`)
			ns = reAtomic.ReplaceAllString(ns, `${1}atomic "`+shimPath+`/vatomic"`)
			ns = reAtomicAs.ReplaceAllString(ns, `${1}${2} "`+shimPath+`/vatomic"`)
			ns = reSyncutil.ReplaceAllString(ns, `${1}syncutil "`+shimPath+`/vsyncutil"`)
		}
		if ns == s {
			if src != p {
				replace[p] = src
			}
			return nil
		}
		rel, _ := filepath.Rel(*repo, p)
		dst := filepath.Join(*out, "rw", strings.ReplaceAll(rel, "/", "__"))
		if err := os.MkdirAll(filepath.Dir(dst), 0o755); err != nil {
			return err
		}
		if err := os.WriteFile(dst, []byte(ns), 0o644); err != nil {
			return err
		}
		replace[p] = dst
		rewritten = append(rewritten, rel)
		return nil
	})
	if err != nil {
		fatal("walk: %v", err)
	}
	// replacement for files that do not exist in the repo (added files)
	for p, r := range replaced {
		if _, ok := replace[p]; !ok {
			if _, err := os.Stat(p); err != nil {
				replace[p] = r
			}
		}
	}

	if !*noShim {
		// the shim directory becomes the virtual package tree <repo>/verifshim/...
		err := filepath.Walk(*shim, func(p string, info os.FileInfo, err error) error {
			if err != nil || info.IsDir() {
				return err
			}
			if strings.HasSuffix(p, ".go") && !strings.HasSuffix(p, "_test.go") {
				rel, _ := filepath.Rel(*shim, p)
				abs, _ := filepath.Abs(p)
				replace[filepath.Join(*repo, "verifshim", rel)] = abs
			}
			return nil
		})
		if err != nil {
			fatal("shim: %v", err)
		}
	}

	j, _ := json.MarshalIndent(map[string]any{"Replace": replace}, "", " ")
	if err := os.WriteFile(filepath.Join(*out, "overlay.json"), j, 0o644); err != nil {
		fatal("write: %v", err)
	}
	fmt.Fprintf(os.Stderr, "mkoverlay: rewrote %v\n", rewritten)
}

func fatal(f string, a ...any) {
	fmt.Fprintf(os.Stderr, "mkoverlay: "+f+"\n", a...)
	os.Exit(2)
}
