// Command racepass is the auxiliary free-running pass of C14: the scenario
// thread bodies run on real goroutines with the real sync package under the Go
// race detector (build with -race -tags verif, without the shim overlay).  The
// verif yield hooks call runtime.Gosched() following a seeded pattern to widen
// the windows.  It is evidence next to E1, not the deciding step.
package main

import (
	"fmt"
	"os"
	"runtime"
	"strconv"
	"sync"
	"sync/atomic"

	"github.com/AdguardTeam/urlfilter/filterlist"
	"github.com/AdguardTeam/urlfilter/rules"

	"verif/scen"
)

func main() {
	iters := 300
	if len(os.Args) > 1 {
		iters, _ = strconv.Atoi(os.Args[1])
	}
	seed, _ := strconv.ParseUint(os.Getenv("VERIF_SEED"), 10, 64)
	var ctr atomic.Uint64
	ctr.Store(seed)
	yield := func(string) {
		if n := ctr.Add(0x9E3779B97F4A7C15); n>>61 != 0 {
			runtime.Gosched()
		}
	}
	rules.VerifYieldHook = yield
	filterlist.VerifYieldHook = yield
	scen.FileDir = os.Getenv("VERIF_WORK")

	total, mismatches := 0, 0
	for _, sc := range scen.C14Scenarios() {
		for _, file := range []bool{false, true} {
			// sequential answers
			exp := map[string]string{}
			for _, qs := range sc.Threads {
				for _, q := range qs {
					e, st, _ := scen.Build(sc.Lists, file)
					if sc.ClosedBefore {
						st.Close()
					}
					exp[q.String()] = e.Answer(q)
					st.Close()
				}
			}
			for _, mult := range []int{1, 4, 11} { // 2-3, 8-12, 22-33 goroutines
				n := iters
				if mult > 1 {
					n = iters / mult
				}
				for it := 0; it < n; it++ {
					e, st, _ := scen.Build(sc.Lists, file)
					if sc.ClosedBefore {
						st.Close()
					}
					var wg sync.WaitGroup
					var mu sync.Mutex
					for m := 0; m < mult; m++ {
						for ti := range sc.Threads {
							qs := sc.Threads[ti]
							wg.Add(1)
							go func() {
								defer wg.Done()
								for _, q := range qs {
									got := e.Answer(q)
									if got != exp[q.String()] {
										mu.Lock()
										if mismatches < 5 {
											fmt.Printf("MISMATCH %s file=%v goroutines=%d: %s returned %s, sequentially %s\n", sc.Name, file, mult*len(sc.Threads), q, got, exp[q.String()])
										}
										mismatches++
										mu.Unlock()
									}
								}
							}()
						}
					}
					wg.Wait()
					st.Close()
					total += mult * len(sc.Threads)
				}
			}
		}
	}
	fmt.Printf("racepass: %d goroutine bodies run, %d mismatches\n", total, mismatches)
	if mismatches > 0 {
		os.Exit(1)
	}
}
