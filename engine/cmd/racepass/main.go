// Command racepass is the auxiliary free-running pass of C14: the scenario
// thread bodies run on real goroutines with the real sync package under the Go
// race detector (build with -race -tags verif, without the shim overlay).  The
// verif yield hooks call runtime.Gosched() following a seeded pattern to widen
// the windows.  It is evidence next to E1, not the deciding step.
package main

import (
	"fmt"
	"os"
	"runtime"
	"strconv"
	"strings"
	"sync"
	"sync/atomic"

	"github.com/AdguardTeam/urlfilter"
	"github.com/AdguardTeam/urlfilter/filterlist"
	"github.com/AdguardTeam/urlfilter/rules"

	"verif/scen"
)

func main() {
	iters := 300
	if len(os.Args) > 1 {
		iters, _ = strconv.Atoi(os.Args[1])
	}
	seed, _ := strconv.ParseUint(os.Getenv("VERIF_SEED"), 10, 64)
	var ctr atomic.Uint64
	ctr.Store(seed)
	yield := func(string) {
		if n := ctr.Add(0x9E3779B97F4A7C15); n>>61 != 0 {
			runtime.Gosched()
		}
	}
	rules.VerifYieldHook = yield
	filterlist.VerifYieldHook = yield
	scen.FileDir = os.Getenv("VERIF_WORK")

	total, mismatches := 0, 0
	for _, sc := range scen.C14Scenarios() {
		for _, file := range []bool{false, true} {
			// sequential answers
			exp := map[string]string{}
			for _, qs := range sc.Threads {
				for _, q := range qs {
					e, st, _ := scen.Build(sc.Lists, file)
					if sc.ClosedBefore {
						st.Close()
					}
					exp[q.String()] = e.Answer(q)
					st.Close()
				}
			}
			for _, mult := range []int{1, 4, 11} { // 2-3, 8-12, 22-33 goroutines
				n := iters
				if mult > 1 {
					n = iters / mult
				}
				for it := 0; it < n; it++ {
					e, st, _ := scen.Build(sc.Lists, file)
					if sc.ClosedBefore {
						st.Close()
					}
					var wg sync.WaitGroup
					var mu sync.Mutex
					for m := 0; m < mult; m++ {
						for ti := range sc.Threads {
							qs := sc.Threads[ti]
							wg.Add(1)
							go func() {
								defer wg.Done()
								for _, q := range qs {
									got := e.Answer(q)
									if got != exp[q.String()] {
										mu.Lock()
										if mismatches < 5 {
											fmt.Printf("MISMATCH %s file=%v goroutines=%d: %s returned %s, sequentially %s\n", sc.Name, file, mult*len(sc.Threads), q, got, exp[q.String()])
										}
										mismatches++
										mu.Unlock()
									}
								}
							}()
						}
					}
					wg.Wait()
					st.Close()
					total += mult * len(sc.Threads)
				}
			}
		}
	}
	// a working set beyond 2^16 distinct rules and modifier values (bounded
	// process-wide tables fill up and start to evict only there): four
	// goroutines with cold misses on different rules of one in-memory list,
	// then of two lists
	for _, nLists := range []int{1, 2} {
		const big = 70000
		var texts []string
		for li := 0; li < nLists; li++ {
			var sb strings.Builder
			for i := li; i < big; i += nLists {
				fmt.Fprintf(&sb, "||n%05d.big.test^$domain=d%05d.test|~x%05d.d%05d.test\n", i, i, i, i)
			}
			texts = append(texts, sb.String())
		}
		var ls []filterlist.RuleList
		for li, t := range texts {
			ls = append(ls, &filterlist.StringRuleList{ID: li + 1, RulesText: t})
		}
		st, err := filterlist.NewRuleStorage(ls)
		if err != nil {
			fmt.Println("harness error:", err)
			os.Exit(2)
		}
		ne := urlfilter.NewNetworkEngine(st)
		var wg sync.WaitGroup
		var mu sync.Mutex
		const workers, per = 4, 700 // 2 800 cold queries: 5 600 distinct host names in the process
		hotWant := fmt.Sprintf("||n%05d.big.test^$domain=d%05d.test|~x%05d.d%05d.test", 1, 1, 1, 1)
		for w := 0; w < workers; w++ {
			wg.Add(1)
			go func() {
				defer wg.Done()
				for k := 0; k < per; k++ {
					i := (k*workers+w)*97 % big
					want := fmt.Sprintf("||n%05d.big.test^$domain=d%05d.test|~x%05d.d%05d.test", i, i, i, i)
					// a hot query (everything it needs is in memory already) between two cold ones: readers that hit
					// next to writers that miss
					if hot := ne.MatchAll(rules.NewRequest("http://n00001.big.test/", "http://d00001.test/", rules.TypeScript)); len(hot) != 1 || hot[0].RuleText != hotWant {
						mu.Lock()
						if mismatches < 5 {
							fmt.Printf("MISMATCH large-working-set lists=%d goroutines=%d: the hot query returned %d rules, sequentially exactly %s\n", nLists, workers, len(hot), hotWant)
						}
						mismatches++
						mu.Unlock()
					}
					got := ne.MatchAll(rules.NewRequest(fmt.Sprintf("http://n%05d.big.test/", i), fmt.Sprintf("http://d%05d.test/", i), rules.TypeScript))
					if len(got) != 1 || got[0].RuleText != want {
						mu.Lock()
						if mismatches < 5 {
							fmt.Printf("MISMATCH large-working-set lists=%d goroutines=%d: query %d returned %d rules, sequentially exactly %s\n", nLists, workers, i, len(got), want)
						}
						mismatches++
						mu.Unlock()
					}
				}
			}()
		}
		wg.Wait()
		st.Close()
		total += workers
	}
	fmt.Printf("racepass: %d goroutine bodies run, %d mismatches\n", total, mismatches)
	if mismatches > 0 {
		os.Exit(1)
	}
}
