package enum

import (
	"fmt"

	"github.com/AdguardTeam/urlfilter/filterutil"
)

// CollidingWindows deterministically finds two distinct 5-byte lower-case
// strings with equal FastHashBetween (the key of the shortcut index).
func CollidingWindows() (a, b string) {
	seen := map[uint32]string{}
	// digits and letters: their code ranges are more than 33 apart, which is
	// what makes two different "base-33 digit" strings meet
	const letters = "0123456789abcdefghijklmnopqrstuvwxyz"
	const n0 = len(letters)
	buf := []byte("q....")
	for i := 0; i < n0*n0*n0*n0; i++ {
		n := i
		for k := 4; k >= 1; k-- {
			buf[k] = letters[n%n0]
			n /= n0
		}
		s := string(buf)
		h := filterutil.FastHashBetween(s, 0, 5)
		if p, ok := seen[h]; ok {
			return p, s
		}
		seen[h] = s
	}
	panic("no colliding windows found")
}

// CollidingHosts deterministically finds two distinct host names with equal
// FastHash (the key of the $domain index and of the DNS host table).  The hash
// is a left fold, so two colliding 5-byte prefixes followed by the same suffix
// collide as well.
func CollidingHosts() (a, b string) {
	wa, wb := CollidingWindows()
	a, b = wa+".test", wb+".test"
	if filterutil.FastHash(a) != filterutil.FastHash(b) || a == b {
		panic(fmt.Sprintf("hosts %s and %s do not collide", a, b))
	}
	return a, b
}

// CollidingTexts returns two different strings prefix+s+suffix and prefix+t+suffix
// (s, t of n characters over [0-9a-z]) with equal FastHash.  It panics if there
// are none.
func CollidingTexts(prefix string, n int, suffix string) (a, b string) {
	const letters = "0123456789abcdefghijklmnopqrstuvwxyz"
	seen := map[uint32]string{}
	buf := make([]byte, n)
	var rec func(i int) bool
	rec = func(i int) bool {
		if i == n {
			t := prefix + string(buf) + suffix
			h := filterutil.FastHash(t)
			if o, ok := seen[h]; ok && o != t {
				a, b = o, t
				return true
			}
			seen[h] = t
			return false
		}
		for k := 0; k < len(letters); k++ {
			buf[i] = letters[k]
			if rec(i + 1) {
				return true
			}
		}
		return false
	}
	if !rec(0) {
		panic(fmt.Sprintf("no colliding texts for prefix %q with %d free characters", prefix, n))
	}
	return a, b
}
