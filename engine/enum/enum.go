// Package enum holds the bounded-exhaustive generators (E4).
package enum

// Permutations calls f with every permutation of 0..n-1 (Heap's algorithm
// order is irrelevant; lexicographic here).  f returns false to stop.
func Permutations(n int, f func(p []int) bool) {
	p := make([]int, n)
	used := make([]bool, n)
	var rec func(k int) bool
	rec = func(k int) bool {
		if k == n {
			return f(p)
		}
		for i := 0; i < n; i++ {
			if used[i] {
				continue
			}
			used[i] = true
			p[k] = i
			if !rec(k + 1) {
				return false
			}
			used[i] = false
		}
		return true
	}
	rec(0)
}

// Sequences calls f with every sequence of length exactly n over 0..k-1.
func Sequences(k, n int, f func(s []int) bool) {
	s := make([]int, n)
	var rec func(i int) bool
	rec = func(i int) bool {
		if i == n {
			return f(s)
		}
		for v := 0; v < k; v++ {
			s[i] = v
			if !rec(i + 1) {
				return false
			}
		}
		return true
	}
	rec(0)
}

// SequencesUpTo calls f with every sequence of length 0..n over 0..k-1,
// shortest first.
func SequencesUpTo(k, n int, f func(s []int) bool) {
	for l := 0; l <= n; l++ {
		stop := false
		Sequences(k, l, func(s []int) bool {
			if !f(s) {
				stop = true
				return false
			}
			return true
		})
		if stop {
			return
		}
	}
}

// Multisets calls f with every non-decreasing sequence of length exactly n
// over 0..k-1 (i.e. every multiset of size n).
func Multisets(k, n int, f func(s []int) bool) {
	s := make([]int, n)
	var rec func(i, from int) bool
	rec = func(i, from int) bool {
		if i == n {
			return f(s)
		}
		for v := from; v < k; v++ {
			s[i] = v
			if !rec(i+1, v) {
				return false
			}
		}
		return true
	}
	rec(0, 0)
}

// Combinations calls f with every strictly increasing sequence of length n
// over 0..k-1 (every subset of size n).
func Combinations(k, n int, f func(s []int) bool) {
	s := make([]int, n)
	var rec func(i, from int) bool
	rec = func(i, from int) bool {
		if i == n {
			return f(s)
		}
		for v := from; v < k; v++ {
			s[i] = v
			if !rec(i+1, v+1) {
				return false
			}
		}
		return true
	}
	rec(0, 0)
}

// DistinctPermutations calls f with every distinct ordering of the multiset s
// (s must be sorted ascending).
func DistinctPermutations(s []int, f func(p []int) bool) {
	n := len(s)
	p := make([]int, n)
	used := make([]bool, n)
	var rec func(k int) bool
	rec = func(k int) bool {
		if k == n {
			return f(p)
		}
		for i := 0; i < n; i++ {
			if used[i] || (i > 0 && s[i] == s[i-1] && !used[i-1]) {
				continue
			}
			used[i] = true
			p[k] = s[i]
			if !rec(k + 1) {
				return false
			}
			used[i] = false
		}
		return true
	}
	rec(0)
}
