// Package ev writes evidence files, replay files and handles the committed
// known-findings list.
package ev

import (
	"bufio"
	"crypto/sha256"
	"encoding/hex"
	"encoding/json"
	"fmt"
	"os"
	"path/filepath"
	"sort"
	"strconv"
	"strings"
	"sync"
	"time"
)

// Root is the /verif directory.
var Root = "/verif"

// Violation is one failing case found by a check.
type Violation struct {
	// Pred names the oracle predicate that failed (part of the signature).
	Pred string `json:"pred"`
	// Sig is the canonical minimal failing input (part of the signature).
	Sig map[string]any `json:"signature"`
	// What is a human-readable description.
	What string `json:"what"`
	// Replay is everything needed to re-execute the case.
	Replay map[string]any `json:"replay"`
}

// Finding is one line of known_findings.jsonl.
type Finding struct {
	Status     string         `json:"status"` // "known" | "fixed"
	Property   string         `json:"property"`
	Properties []string       `json:"properties,omitempty"`
	Finding    string         `json:"finding"`
	Pred       string         `json:"pred"`
	Signature  map[string]any `json:"signature,omitempty"`
	What       string         `json:"what"`
	Commit     string         `json:"commit,omitempty"`
}

// Run collects what one check run covered.
type Run struct {
	Property string
	Tier     string
	Level    string
	Seed     int64
	start    time.Time

	mu         sync.Mutex
	Coverage   map[string]any
	Assume     []string
	violations []Violation
	samples    []any
	maxSamples int
}

// NewRun starts a run.
func NewRun(prop, tier, level string) *Run {
	seed, _ := strconv.ParseInt(os.Getenv("VERIF_SEED"), 10, 64)
	return &Run{Property: prop, Tier: tier, Level: level, Seed: seed, start: time.Now(),
		Coverage: map[string]any{}, maxSamples: 8}
}

// Sample records a sample case (only the first few are kept).
func (r *Run) Sample(s any) {
	r.mu.Lock()
	defer r.mu.Unlock()
	if len(r.samples) < r.maxSamples {
		r.samples = append(r.samples, s)
	}
}

// Set sets a coverage key.
func (r *Run) Set(k string, v any) {
	r.mu.Lock()
	defer r.mu.Unlock()
	r.Coverage[k] = v
}

// Add adds n to an integer coverage key.
func (r *Run) Add(k string, n int64) {
	r.mu.Lock()
	defer r.mu.Unlock()
	cur, _ := r.Coverage[k].(int64)
	r.Coverage[k] = cur + n
}

// Get returns an integer coverage key.
func (r *Run) Get(k string) int64 {
	r.mu.Lock()
	defer r.mu.Unlock()
	cur, _ := r.Coverage[k].(int64)
	return cur
}

// Assumption records an assumption.
func (r *Run) Assumption(s string) { r.Assume = append(r.Assume, s) }

// Violate records a violation.  At most 200 are kept; the rest are counted.
func (r *Run) Violate(v Violation) {
	r.mu.Lock()
	defer r.mu.Unlock()
	if len(r.violations) < 200 {
		r.violations = append(r.violations, v)
	}
	cur, _ := r.Coverage["violating_cases"].(int64)
	r.Coverage["violating_cases"] = cur + 1
}

// NViolations returns the number of recorded violations.
func (r *Run) NViolations() int {
	r.mu.Lock()
	defer r.mu.Unlock()
	return len(r.violations)
}

// Elapsed returns the time since the start of the run.
func (r *Run) Elapsed() time.Duration { return time.Since(r.start) }

func canon(v any) string {
	b, _ := json.Marshal(v) // map keys are sorted by encoding/json
	return string(b)
}

func sigKey(pred string, sig map[string]any) string { return pred + "|" + canon(sig) }

// LoadFindings reads the committed known-findings file.  Lines are either
// "fixed: property=<id> <commit> <what failed>" (informational, suppresses
// nothing) or "known: property=<id> <json>".
func LoadFindings() (fs []Finding, err error) {
	f, err := os.Open(filepath.Join(Root, "known_findings.txt"))
	if err != nil {
		if os.IsNotExist(err) {
			return nil, nil
		}
		return nil, err
	}
	defer f.Close()
	sc := bufio.NewScanner(f)
	sc.Buffer(make([]byte, 1<<20), 1<<24)
	for sc.Scan() {
		line := strings.TrimSpace(sc.Text())
		switch {
		case line == "" || line[0] == '#':
			continue
		case strings.HasPrefix(line, "fixed: property="):
			rest := strings.TrimPrefix(line, "fixed: property=")
			parts := strings.SplitN(rest, " ", 3)
			fd := Finding{Status: "fixed", Property: parts[0]}
			if len(parts) > 1 {
				fd.Commit = parts[1]
			}
			if len(parts) > 2 {
				fd.What = parts[2]
			}
			fs = append(fs, fd)
		case strings.HasPrefix(line, "known: property="):
			rest := strings.TrimPrefix(line, "known: property=")
			id, js, ok := strings.Cut(rest, " ")
			if !ok {
				return nil, fmt.Errorf("known_findings.txt: malformed line %q", line)
			}
			fd := Finding{Status: "known", Property: id}
			if err := json.Unmarshal([]byte(js), &fd); err != nil {
				return nil, fmt.Errorf("known_findings.txt: %w", err)
			}
			fd.Status, fd.Property = "known", id
			fs = append(fs, fd)
		default:
			return nil, fmt.Errorf("known_findings.txt: malformed line %q", line)
		}
	}
	return fs, sc.Err()
}

func (f Finding) appliesTo(prop string) bool {
	if f.Property == prop {
		return true
	}
	for _, p := range f.Properties {
		if p == prop {
			return true
		}
	}
	return false
}

// Finish writes the evidence file, prints KNOWN-FINDING / VIOLATION lines and
// returns the process exit code.
func (r *Run) Finish() int {
	r.mu.Lock()
	defer r.mu.Unlock()

	findings, err := LoadFindings()
	if err != nil {
		fmt.Fprintln(os.Stderr, "harness error:", err)
		r.writeEvidence(0, err.Error())
		return 2
	}
	known := map[string]Finding{}
	for _, f := range findings {
		if f.Status == "known" && f.appliesTo(r.Property) {
			known[sigKey(f.Pred, f.Signature)] = f
		}
	}

	// Deterministic order.
	sort.SliceStable(r.violations, func(i, j int) bool {
		return sigKey(r.violations[i].Pred, r.violations[i].Sig) < sigKey(r.violations[j].Pred, r.violations[j].Sig)
	})

	printedKnown := map[string]bool{}
	var fresh []Violation
	for _, v := range r.violations {
		k := sigKey(v.Pred, v.Sig)
		if f, ok := known[k]; ok {
			if !printedKnown[k] {
				printedKnown[k] = true
				fmt.Printf("KNOWN-FINDING: property=%s %s (%s)\n", r.Property, f.What, f.Finding)
			}
			continue
		}
		fresh = append(fresh, v)
	}

	nviol := 0
	seen := map[string]bool{}
	for _, v := range fresh {
		k := sigKey(v.Pred, v.Sig)
		if seen[k] {
			continue
		}
		seen[k] = true
		nviol++
		if nviol > 20 {
			continue
		}
		path := r.writeReplay(v)
		fmt.Printf("VIOLATION property=%s replay=%s\n", r.Property, path)
		fmt.Printf("  %s: %s\n", v.Pred, v.What)
	}
	if nviol > 20 {
		fmt.Printf("  (%d further distinct violations not written)\n", nviol-20)
	}
	r.Coverage["known_findings_matched"] = len(printedKnown)
	r.writeEvidence(nviol, "")
	if nviol > 0 {
		return 1
	}
	return 0
}

func (r *Run) writeReplay(v Violation) string {
	b, _ := json.MarshalIndent(map[string]any{
		"property":  r.Property,
		"pred":      v.Pred,
		"signature": v.Sig,
		"what":      v.What,
		"replay":    v.Replay,
	}, "", " ")
	h := sha256.Sum256([]byte(sigKey(v.Pred, v.Sig)))
	dir := filepath.Join(Root, "replays", r.Property)
	_ = os.MkdirAll(dir, 0o755)
	p := filepath.Join(dir, hex.EncodeToString(h[:6])+".json")
	_ = os.WriteFile(p, b, 0o644)
	return p
}

func (r *Run) writeEvidence(nviol int, harnessErr string) {
	cov := map[string]any{}
	for k, v := range r.Coverage {
		cov[k] = v
	}
	if len(r.samples) == 0 {
		r.samples = []any{"(no case explored)"}
	}
	cov["samples"] = r.samples
	if harnessErr != "" {
		cov["harness_error"] = harnessErr
	}
	e := map[string]any{
		"property_id": r.Property,
		"tier":        r.Tier,
		"seed":        r.Seed,
		"level":       r.Level,
		"coverage":    cov,
		"assumptions": r.Assume,
		"wall_s":      float64(int(time.Since(r.start).Seconds()*1000)) / 1000,
		"violations":  nviol,
	}
	if e["assumptions"] == nil {
		e["assumptions"] = []string{}
	}
	b, _ := json.MarshalIndent(e, "", " ")
	_ = os.MkdirAll(filepath.Join(Root, "evidence"), 0o755)
	_ = os.WriteFile(filepath.Join(Root, "evidence", r.Property+".json"), append(b, '\n'), 0o644)
}

// LoadReplay reads a replay file.
func LoadReplay(path string) (m map[string]any, err error) {
	b, err := os.ReadFile(path)
	if err != nil {
		return nil, err
	}
	var top map[string]any
	if err = json.Unmarshal(b, &top); err != nil {
		return nil, err
	}
	m, _ = top["replay"].(map[string]any)
	if m == nil {
		return nil, fmt.Errorf("%s: no replay object", path)
	}
	return m, nil
}

// Deadline returns the internal deadline for the tier.
func Deadline(tier string) time.Duration {
	if d, err := time.ParseDuration(os.Getenv("VERIF_DEADLINE")); err == nil && d > 0 {
		return d
	}
	if tier == "thorough" {
		return 20 * time.Minute
	}
	return 90 * time.Second
}
