package props

import (
	"fmt"
	"math"
	"regexp"
	"strconv"
	"strings"
	"sync"

	"github.com/AdguardTeam/urlfilter"
	"github.com/AdguardTeam/urlfilter/filterlist"
	"github.com/AdguardTeam/urlfilter/rules"

	"verif/enum"
	"verif/ev"
	"verif/statespace"
)

// C01 — network engine lookup is equivalent to a linear scan of all rules (E2).
//
// State = contents of the lookup tables (bucket -> rules, histogram, sequential
// list).  Transition = append one rule as the next line, or start a new list.

var c01ListIDs = []int{1, 0, -1, math.MaxInt32, math.MinInt32, 7}

type c01Alphabet struct {
	nCore    int
	rules    []string
	requests []c04Req
	wA, wB   string
	hA, hB   string
	tA, tB   string
}

var (
	c01Once  sync.Once
	c01Alpha *c01Alphabet
)

func c01GetAlphabet() *c01Alphabet {
	c01Once.Do(func() {
		a := &c01Alphabet{}
		a.wA, a.wB = enum.CollidingWindows()
		a.hA, a.hB = enum.CollidingHosts()
		a.tA, a.tB = enum.CollidingTexts("||ad", 2, "^")
		a.rules = []string{
			"||example.org^",
			"||example.org/ads",
			"||EXAMPLE.org/ADS$match-case",
			"-ads-",
			"/banner",
			"/ad$domain=example.org",
			"/ad$domain=example.org|sub.example.org",
			"/ad$domain=google.*",
			"/ad$domain=~x.com|google.*",
			"/ad$domain=~example.org",
			"|https://$third-party",
			"/ex[a-z]+le/",
			a.wA + "^",
			a.wB + "^",
			"/ad$domain=" + a.hA,
			"/ad$domain=" + a.hB,
			"@@||example.org^$document",
			"||example.org^$important",
			"example$denyallow=x.com",
			"||h1.test^$client=10.0.0.1,ctag=pc,dnstype=A",
			"реклама-x",               // shortcut windows with bytes >= 0x80 (index key is byte-wise)
			"/ad$domain=co.uk",        // $domain naming a public suffix (ICANN)
			"/ad$domain=github.io|uk", // private suffix and a TLD
		}
		a.nCore = len(a.rules)
		// extended alphabet (explored one level less deep than the core)
		a.rules = append(a.rules,
			"/ad$domain=example.org|badexample.org",  // one value is a string suffix, not a label suffix, of the other
			"/ad$domain=sub.example.org|example.org", // a value covered by another value
			"http://ads1.example.org^",               // scheme spelled out: shortcut windows overlap "http:"
			"http://ads2.example.org^",
			"://ads3.example.org^",
			"|http://ads4.example.org/",
			"ads5.example.org^",        // un-anchored: matched against the bare hostname for hostname requests
			"||EXAMPLE.org^$important", // upper case in the pattern, lower-cased shortcut
			"! a comment line",         // a list may consist of nothing but such lines
			"реклама-x$script",         // shares every window with the core rule: filed under a window that starts inside a character
			"реклама-x$important",
			a.tA, a.tB, // different texts with equal 32-bit hashes, both kept in the sequential table (short shortcut)
			"/AB$match-case", "/ab$match-case", // texts that differ in letter case only (sequential table)
			c01LongRule(), // longer than the list scanner's 4 KiB buffer, filed by $domain; its last domain is a request source
			"tps://example.org^", "s://ex", // literals that begin in the middle of the scheme name
		)
		long := "http://example.org/ads?" + strings.Repeat("x", 4070) + "/banner-ads-"
		urls := []string{"http://example.org/", "https://sub.example.org/ads?x=1", "http://x.com/banner", "http://EXAMPLE.ORG/ADS", "http://example.org/?u=example.org",
			"http://x.test/" + a.wA + "/", "http://x.test/" + a.wB + "/", "http://example.org/-ads-/ad", "https://y.test/ad", "http://x.test/реклама-x?q", "http://example.org/\u212aelvin-ads-/\u0130/ad", "http://ads1.example.org/?u=http://ads2.example.org/", long, "http://example.example.org/-ads-/-ads-",
			"http://x.com/\u023a\u023e\u023a/banner", "https://sub.example.org/\xe9\xe9\xe9/ads?x=1", // the lower-cased URL is longer in bytes than the URL (case pairs of other lengths, bytes that are not UTF-8), a rule's shortcut at its very end
			"http://" + strings.TrimSuffix(strings.TrimPrefix(a.tA, "||"), "^") + "/AB", "http://" + strings.TrimSuffix(strings.TrimPrefix(a.tB, "||"), "^") + "/x/ab",
			"http://EXAMPLE.org/ADS/x", // the URL a $match-case rule with capital letters accepts: its index key has to be found through the lower-cased URL
			"https://example.org/ads"}
		srcs := []string{"", "http://example.org/", "http://sub.example.org/", "https://www.google.co.uk/", "http://x.google.agoogle.com/", "http://" + a.hA + "/", "http://" + a.hB + "/", "http://x.com/", "http://user.github.io/", "http://a.co.uk/", "http://badexample.org/", "http://www.badexample.org/", "http://site0399.test/", "http://EXAMPLE.org/", "http://l8.l7.l6.l5.l4.l3.l2.l1.example.org/"}
		for _, u := range urls {
			for _, s := range srcs {
				for _, t := range []rules.RequestType{rules.TypeScript, rules.TypeDocument} {
					a.requests = append(a.requests, c04Req{q: rules.NewRequest(u, s, t), desc: fmt.Sprintf("url=%s src=%s type=%d", clip(u), s, t)})
				}
			}
		}
		for _, h := range []string{"h1.test", "example.org", "ads1.example.org", "ads2.example.org", "ads3.example.org", "ads4.example.org", "ads5.example.org", "sub.ads5.example.org"} {
			for _, withClient := range []bool{false, true} {
				q := rules.NewRequestForHostname(h)
				if withClient {
					q.ClientIP, q.ClientName, q.SortedClientTags, q.DNSType = mustAddr("10.0.0.1"), "laptop", []string{"pc"}, 1
				}
				a.requests = append(a.requests, c04Req{q: q, desc: fmt.Sprintf("hostname=%s client=%v", h, withClient)})
			}
			// the same hostname request on a request object that was used for a URL before
			// (the way a pool of request objects hands them out)
			q := rules.NewRequest("https://ads5.example.org/banner/ads.js?x=1", "https://example.com/page", rules.TypeScript)
			rules.FillRequestForHostname(q, h)
			a.requests = append(a.requests, c04Req{q: q, desc: fmt.Sprintf("hostname=%s on a request object filled for a URL before", h)})
		}
		c01Alpha = a
	})
	return c01Alpha
}

// c01Size: 17, 33 and 65 rules that share one bucket of each table (one
// shortcut, one $domain value, the sequential table), in one list and dealt out
// over eight lists, against the linear scan.
func c01Size(c *Ctx) (evals int64) {
	ids := []int{1, 0, -1, 2, 7, math.MaxInt32, math.MinInt32, 100}
	for _, n := range []int{17, 33, 65} {
		var lines []string
		for i := 0; i < n; i++ {
			lines = append(lines,
				fmt.Sprintf("/bucket-q$domain=d%02d.test|shared.test", i), // shortcuts table, one shortcut
				fmt.Sprintf("/bk$domain=shared.test|d%02d.test", i),       // $domain table, bucket shared.test
				fmt.Sprintf("/sq$ctag=t%02d", i),                          // sequential table
				fmt.Sprintf("||bucket-h%02d.test^$important", i),
				fmt.Sprintf("/this-shortcut-is-thirty-one-bytes$domain=d%02d.test|shared.test", i)) // a shortcut with 27 windows
		}
		for _, nLists := range []int{1, 8} {
			texts := make([][]string, nLists)
			for i, l := range lines {
				texts[i%nLists] = append(texts[i%nLists], l)
			}
			var ls []filterlist.RuleList
			var all []*rules.NetworkRule
			for li, t := range texts {
				ls = append(ls, &filterlist.StringRuleList{ID: ids[li], RulesText: joinLines(t) + "\n"})
				for _, l := range t {
					all = append(all, mustNetRule(l, ids[li]))
				}
			}
			st, err := filterlist.NewRuleStorage(ls)
			if err != nil {
				panic(HarnessError(err.Error()))
			}
			ne := urlfilter.NewNetworkEngine(st)
			var reqs []*rules.Request
			for _, i := range []int{0, 1, n / 2, n - 2, n - 1} {
				reqs = append(reqs, rules.NewRequest("http://x.test/bucket-q/bk/sq", fmt.Sprintf("http://d%02d.test/", i), rules.TypeScript),
					rules.NewRequest(fmt.Sprintf("http://bucket-h%02d.test/sq", i), "", rules.TypeScript))
				q := rules.NewRequestForHostname(fmt.Sprintf("bucket-h%02d.test", i))
				q.SortedClientTags = []string{fmt.Sprintf("t%02d", i)}
				reqs = append(reqs, q)
			}
			reqs = append(reqs, rules.NewRequest("http://x.test/this-shortcut-is-thirty-one-bytes/bk", "http://d01.test/", rules.TypeScript),
				rules.NewRequest("http://x.test/this-shortcut-is-thirty-one-bytes/bk", fmt.Sprintf("http://l9.l8.l7.l6.l5.l4.l3.l2.l1.d%02d.test/", n-1), rules.TypeScript),
				rules.NewRequest("http://x.test/this-shortcut-is-thirty-one-bytes", "http://shared.test/", rules.TypeScript))
			reqs = append(reqs, rules.NewRequest("http://x.test/bucket-q/bk/sq", "http://shared.test/", rules.TypeScript), rules.NewRequest("http://x.test/bucket-q/bk/sq", "http://www.shared.test/", rules.TypeImage))
			for _, q := range reqs {
				evals++
				var want []string
				for _, r := range all {
					if r.Match(q) {
						want = append(want, r.RuleText)
					}
				}
				g, w := sortedSet(netTexts(ne.MatchAll(q))), sortedSet(want)
				if !eqStrings(g, w) {
					lost, added := diffSets(w, g)
					c.Run.Violate(ev.Violation{Pred: "matchall-equals-linear-scan", Sig: map[string]any{"size": n, "lists": nLists, "lost": clipList(lost), "added": clipList(added)},
						What:   fmt.Sprintf("%d rules per bucket in %d list(s), request %s from %q: MatchAll returns %d rules, the linear scan %d; lost %v, added %v", n, nLists, q.URL, q.SourceURL, len(g), len(w), clipList(lost), clipList(added)),
						Replay: map[string]any{"history": []int{}}})
					return evals
				}
			}
		}
	}
	// three hundred rules that share every window of one shortcut (a counter per
	// window that saturates, a bucket that grows past any small bound); the last
	// rule is the only exception
	{
		var lines []string
		for i := 0; i < 300; i++ {
			lines = append(lines, fmt.Sprintf("||a-bucket.test^$domain=f%03d.test", i))
		}
		lines = append(lines, "@@||a-bucket.test^", "||a-bucket.test^$important")
		ne := urlfilter.NewNetworkEngine(stringStorage(joinLines(lines) + "\n"))
		var all []*rules.NetworkRule
		for _, l := range lines {
			all = append(all, mustNetRule(l, 0))
		}
		for _, src := range []string{"", "http://f000.test/", "http://f255.test/", "http://f256.test/", "http://f299.test/"} {
			q := rules.NewRequest("http://a-bucket.test/", src, rules.TypeScript)
			evals++
			var want []string
			for _, r := range all {
				if r.Match(q) {
					want = append(want, r.RuleText)
				}
			}
			if g, w := sortedSet(netTexts(ne.MatchAll(q))), sortedSet(want); !eqStrings(g, w) {
				lost, added := diffSets(w, g)
				c.Run.Violate(ev.Violation{Pred: "matchall-equals-linear-scan", Sig: map[string]any{"size": 302, "lost": clipList(lost), "added": clipList(added)},
					What:   fmt.Sprintf("302 rules with one shortcut, request http://a-bucket.test/ from %q: MatchAll returns %v, the linear scan %v", src, g, w),
					Replay: map[string]any{"history": []int{}}})
				break
			}
		}
	}
	return evals
}

// c01LongRule returns "/ad$script,domain=site0000.test|...|site0399.test" (> 4 KiB).
func c01LongRule() string {
	var ds []string
	for i := 0; i < 400; i++ {
		ds = append(ds, fmt.Sprintf("site%04d.test", i))
	}
	return "/ad$script,domain=" + strings.Join(ds, "|")
}

// c01Lists turns a history (rule indexes, len(rules) = "new list") into list
// texts.
func c01Lists(a *c01Alphabet, hist []int) (lists [][]string) {
	lists = [][]string{nil}
	for _, op := range hist {
		if op == len(a.rules) {
			lists = append(lists, nil)
			continue
		}
		lists[len(lists)-1] = append(lists[len(lists)-1], a.rules[op])
	}
	return lists
}

type c01Model struct {
	c *Ctx
	a *c01Alphabet
}

func (m *c01Model) run(hist []int) statespace.Outcome {
	a := m.a
	lists := c01Lists(a, hist)
	if len(lists) > len(c01ListIDs) {
		return statespace.Outcome{Key: "too-many-lists"}
	}
	var ls []filterlist.RuleList
	idxText := map[int64]string{}
	type held struct {
		rule *rules.NetworkRule
		text string
	}
	var all []held
	for li, lines := range lists {
		id := c01ListIDs[li]
		text := joinLines(lines)
		if len(lines) > 0 {
			text += "\n"
		}
		ls = append(ls, &filterlist.StringRuleList{ID: id, RulesText: text})
		off := 0
		for _, l := range lines {
			idxText[filterlist.VerifStorageIdx(int32(id), int32(off))] = fmt.Sprintf("(%d)%s", li, l)
			off += len(l) + 1
			// the engine sees what rules.NewRule makes of the line; only network rules count
			if r, err := rules.NewRule(l, id); err == nil {
				if nr, ok := r.(*rules.NetworkRule); ok {
					all = append(all, held{nr, l})
				}
			}
		}
	}
	st, err := filterlist.NewRuleStorage(ls)
	if err != nil {
		panic(HarnessError(err.Error()))
	}
	var ne *urlfilter.NetworkEngine
	if p := protect(func() { ne = urlfilter.NewNetworkEngine(st) }); p != nil {
		m.violate("no-crash", map[string]any{"lists": lists}, fmt.Sprintf("NewNetworkEngine panics: %v", p), hist)
		return statespace.Outcome{Key: "panic"}
	}
	// the other route to an engine over the same lists: an empty engine to which
	// every scanned network rule is added by hand
	var ne2 *urlfilter.NetworkEngine
	if len(hist) <= 2 || m.c.Thorough() {
		var ls2 []filterlist.RuleList
		for _, l := range ls {
			sl := l.(*filterlist.StringRuleList)
			// (loaded with IgnoreCosmetic: network rules are none of its business)
			ls2 = append(ls2, &filterlist.StringRuleList{ID: sl.ID, RulesText: sl.RulesText, IgnoreCosmetic: true})
		}
		st2, err2 := filterlist.NewRuleStorage(ls2)
		if err2 != nil {
			panic(HarnessError(err2.Error()))
		}
		if p := protect(func() {
			ne2 = urlfilter.NewNetworkEngineSkipStorageScan(st2)
			sc := st2.NewRuleStorageScanner()
			for sc.Scan() {
				r, idx := sc.Rule()
				if nr, ok := r.(*rules.NetworkRule); ok {
					ne2.AddRule(nr, idx)
				}
			}
		}); p != nil {
			m.violate("no-crash", map[string]any{"lists": lists, "route": "NewNetworkEngineSkipStorageScan+AddRule"}, fmt.Sprintf("building the engine rule by rule panics: %v", p), hist)
			return statespace.Outcome{Key: "panic"}
		}
	}
	listsOf := map[string]map[int]bool{}
	for li, lines := range lists {
		for _, l := range lines {
			if listsOf[l] == nil {
				listsOf[l] = map[int]bool{}
			}
			listsOf[l][c01ListIDs[li]] = true
		}
	}
	var obs strings.Builder
	reported := false
	for _, q := range a.requests {
		var got []*rules.NetworkRule
		if ne2 != nil && !reported {
			var got2 []*rules.NetworkRule
			if p := protect(func() { got2 = ne2.MatchAll(q.q) }); p != nil {
				m.violate("no-crash", map[string]any{"lists": lists, "request": q.desc, "route": "AddRule"}, fmt.Sprintf("MatchAll(%s) on the engine built rule by rule panics: %v", q.desc, p), hist)
				break
			}
			var want2 []string
			for _, h := range all {
				if h.rule.Match(q.q) {
					want2 = append(want2, h.text)
				}
			}
			if g2, w2 := sortedSet(netTexts(got2)), sortedSet(want2); !eqStrings(g2, w2) {
				reported = true
				lost, added := diffSets(w2, g2)
				m.violate("matchall-equals-linear-scan", map[string]any{"lost": lost, "added": added, "route": "NewNetworkEngineSkipStorageScan+AddRule"},
					fmt.Sprintf("lists %v, engine built with NewNetworkEngineSkipStorageScan and AddRule for every scanned rule (lists loaded with IgnoreCosmetic), request [%s]: MatchAll returns %v, the rules that individually match are %v", lists, q.desc, g2, w2), hist)
			}
		}
		if p := protect(func() { got = ne.MatchAll(q.q) }); p != nil {
			m.violate("no-crash", map[string]any{"lists": lists, "request": q.desc}, fmt.Sprintf("MatchAll(%s) panics: %v", q.desc, p), hist)
			break
		}
		var want []string
		for _, h := range all {
			if h.rule.Match(q.q) {
				want = append(want, h.text)
			}
		}
		g, w := sortedSet(netTexts(got)), sortedSet(want)
		if !eqStrings(g, w) && !reported {
			reported = true
			// signature: the rules that are lost or added
			lost, added := diffSets(w, g)
			m.violate("matchall-equals-linear-scan", map[string]any{"lost": lost, "added": added},
				fmt.Sprintf("lists %v, request [%s]: MatchAll returns %v, the rules that individually match are %v", lists, q.desc, g, w), hist)
		}
		// (compared as sets, as the property states: a rule filed under two of its
		// $domain values is returned once per value)
		for _, r := range got {
			if !r.Match(q.q) {
				m.violate("returned-rule-matches", map[string]any{"rule": r.RuleText}, fmt.Sprintf("MatchAll(%s) returned %q which does not match", q.desc, r.RuleText), hist)
			}
			if r.Text() != r.RuleText || (listsOf[r.RuleText] != nil && !listsOf[r.RuleText][r.GetFilterListID()]) {
				m.violate("returned-rule-is-the-listed-one", map[string]any{"rule": r.RuleText}, fmt.Sprintf("lists %v: MatchAll(%s) returned a rule with Text()=%q RuleText=%q GetFilterListID()=%d, no list with that id holds it", lists, q.desc, r.Text(), r.RuleText, r.GetFilterListID()), hist)
			}
		}
		obs.WriteString(strconv.Itoa(len(g)))
	}
	dump := urlfilter.VerifNetworkEngineDump(ne)
	// canonical: storage indexes replaced by (list position, rule text)
	key := reBucket.ReplaceAllStringFunc(dump, func(s string) string {
		inner := strings.Trim(s, "[]")
		var parts []string
		for _, f := range strings.Fields(inner) {
			n, err := strconv.ParseInt(f, 10, 64)
			if err != nil {
				parts = append(parts, f)
				continue
			}
			parts = append(parts, idxText[n])
		}
		return "[" + strings.Join(parts, " ; ") + "]"
	})
	en := make([]bool, len(a.rules)+1)
	for i := range en {
		en[i] = true
	}
	en[len(a.rules)] = len(lists) < len(c01ListIDs) // also right after another "new list": empty lists are lists too
	return statespace.Outcome{Key: fmt.Sprintf("%d|%s", len(lists), key), Enabled: en, Observation: obs.String()}
}

var reBucket = regexp.MustCompile(`\[[-0-9 ]*\]`)

func diffSets(want, got []string) (lost, added []string) {
	w, g := map[string]bool{}, map[string]bool{}
	for _, x := range want {
		w[x] = true
	}
	for _, x := range got {
		g[x] = true
	}
	for _, x := range want {
		if !g[x] {
			lost = append(lost, x)
		}
	}
	for _, x := range got {
		if !w[x] {
			added = append(added, x)
		}
	}
	return lost, added
}

func (m *c01Model) violate(pred string, sig map[string]any, what string, hist []int) {
	m.c.Run.Violate(ev.Violation{Pred: pred, Sig: sig, What: what, Replay: map[string]any{"history": hist}})
}

func init() {
	register("C01", "model_checking", func(c *Ctx) {
		a := c01GetAlphabet()
		m := &c01Model{c: c, a: a}
		if c.Replay != nil {
			var hist []int
			for _, v := range c.Replay["history"].([]any) {
				hist = append(hist, int(v.(float64)))
			}
			fmt.Println("  lists:", c01Lists(a, hist))
			m.run(hist)
			return
		}
		wide := statespace.Model{NOps: len(a.rules) + 1, Run: m.run}
		// prefix(n): the first n rules + "new list"
		prefix := func(n int) statespace.Model {
			return statespace.Model{NOps: n + 1, Run: func(h []int) statespace.Outcome {
				hh := make([]int, len(h))
				for i, k := range h {
					hh[i] = k
					if k == n {
						hh[i] = len(a.rules)
					}
				}
				o := m.run(hh)
				if o.Enabled != nil {
					en := make([]bool, n+1)
					copy(en, o.Enabled[:n])
					en[n] = o.Enabled[len(a.rules)]
					o.Enabled = en
				}
				return o
			}}
		}
		// three tiers: the core alphabet one level deeper than the middle one, the
		// whole alphabet (rules that only need short histories: equal-hash texts,
		// case twins, a rule longer than the scanner's buffer) one level less deep
		nMid := len(a.rules)
		for i, r := range a.rules {
			if r == a.tA {
				nMid = i
			}
		}
		full := prefix(nMid)
		core := prefix(a.nCore)
		depth, guard := 3, 2
		if c.Thorough() {
			depth, guard = 4, 3
		}
		g := statespace.BFS(wide, guard, false, c.Workers, c.Deadline)
		s := statespace.BFS(full, depth, true, c.Workers, c.Deadline)
		s2 := statespace.BFS(core, depth+1, true, c.Workers, c.Deadline)
		s3 := statespace.BFS(wide, depth-1, true, c.Workers, c.Deadline)
		s.States += s2.States + s3.States
		s.Transitions += s2.Transitions + s3.Transitions
		s.DeadlineHit = s.DeadlineHit || s2.DeadlineHit || s3.DeadlineHit
		c.Run.Set("middle_alphabet", int64(nMid+1))
		c.Run.Set("whole_alphabet_depth_bound", int64(depth-1))
		c.Run.Set("core_alphabet", int64(a.nCore+1))
		c.Run.Set("core_depth_bound", int64(depth+1))
		c.Run.Set("core_states_per_depth", s2.PerDepth)
		c.Run.Set("size_layer_evaluations", c01Size(c))
		c01Corpus(c)
		c.Run.Sample(map[string]any{"history": []string{a.rules[0], a.rules[1], "<new list>", a.rules[0]}, "requests": len(a.requests)})
		c.Run.Sample(map[string]any{"colliding_windows": []string{a.wA, a.wB}, "colliding_domains": []string{a.hA, a.hB}})
		c.Run.Set("states", s.States)
		c.Run.Set("transitions", s.Transitions+g.Transitions)
		c.Run.Set("traces_validated_against_impl", (s.Transitions+g.Transitions)*int64(len(a.requests)))
		c.Run.Set("states_per_depth", s.PerDepth)
		c.Run.Set("max_depth", int64(s.MaxDepth))
		c.Run.Set("depth_bound", int64(depth))
		c.Run.Set("non_dedup_guard_depth", int64(guard))
		c.Run.Set("non_dedup_guard_histories", g.States)
		c.Run.Set("distinct_observations", s.DistinctOutcomes)
		c.Run.Set("requests_per_state", int64(len(a.requests)))
		c.Run.Set("rules_alphabet", int64(len(a.rules)))
		c.Run.Set("fixpoint", s.Fixpoint)
		c.Run.Set("exhaustive", !s.DeadlineHit && !g.DeadlineHit)
		c.Run.Set("explanation", "state = canonical dump of the three lookup tables and the shortcut histogram of a real NetworkEngine (storage indexes replaced by list position and rule text); transition = append one of the alphabet rules or start a new list (ids 1,0,-1,MaxInt32,MinInt32,7); in every state MatchAll is compared with the linear scan over independently parsed rules for every request")
		c.Run.Assumption("hash collisions other than the two constructed ones (one pair of 5-byte windows, one pair of host names) are not covered")
		c.Run.Assumption("rule.Match on independently parsed rules is the definition of 'individually matches' (property C04 checks it)")
	})
}

// c01Corpus compares the engine built over the bundled real-world lists with
// the linear scan for the recorded real requests (all of them in the thorough
// tier, a fixed stride in the quick tier).
func c01Corpus(c *Ctx) {
	var ls []filterlist.RuleList
	type held struct {
		rule *rules.NetworkRule
		text string
	}
	var all []held
	for li, rel := range []string{"testdata/easylist.txt", "examples/proxy/adguard_russian_filter.txt"} {
		content := corpusContent(rel)
		if content == "" {
			continue
		}
		ls = append(ls, &filterlist.StringRuleList{ID: li, RulesText: content, IgnoreCosmetic: true})
		for _, l := range corpusLines(rel) {
			if r, err := rules.NewRule(l, li); err == nil && r != nil {
				if nr, ok := r.(*rules.NetworkRule); ok {
					all = append(all, held{nr, nr.RuleText})
				}
			}
		}
	}
	reqs := corpusRequests()
	if len(ls) == 0 || len(reqs) == 0 {
		c.Run.Set("corpus_layer", "bundled lists or requests not found")
		return
	}
	st, err := filterlist.NewRuleStorage(ls)
	if err != nil {
		panic(HarnessError(err.Error()))
	}
	ne := urlfilter.NewNetworkEngine(st)
	stride := 16
	if c.Thorough() {
		stride = 1
	}
	var idx []int
	for i := 0; i < len(reqs); i += stride {
		idx = append(idx, i)
	}
	var mu sync.Mutex
	var compared, nonEmpty int64
	c.parallel(len(idx), func(k int) {
		if c.Expired() {
			return
		}
		r := reqs[idx[k]]
		// as a URL request and, for its host, as a hostname request
		qs := []*rules.Request{rules.NewRequest(r.URL, r.Frame, r.Type)}
		if h := qs[0].Hostname; h != "" && k%4 == 0 {
			qs = append(qs, rules.NewRequestForHostname(strings.ToLower(h)))
		}
		for _, q := range qs {
			var want []string
			for _, h := range all {
				if h.rule.Match(q) {
					want = append(want, h.text)
				}
			}
			got := sortedSet(netTexts(ne.MatchAll(q)))
			w := sortedSet(want)
			mu.Lock()
			compared++
			if len(w) > 0 {
				nonEmpty++
			}
			mu.Unlock()
			if !eqStrings(got, w) {
				lost, added := diffSets(w, got)
				c.Run.Violate(ev.Violation{Pred: "corpus-matchall-equals-linear-scan", Sig: map[string]any{"lost": lost, "added": added},
					What:   fmt.Sprintf("engine over the bundled lists, request %s (hostname request: %v): MatchAll returns %v, the linear scan gives %v", clip(q.URL), q.IsHostnameRequest, got, w),
					Replay: map[string]any{"history": []int{}}})
			}
		}
	})
	c.Run.Set("corpus_rules", int64(len(all)))
	c.Run.Set("corpus_requests_compared", compared)
	c.Run.Set("corpus_requests_with_matches", nonEmpty)
	c.Run.Set("corpus_stride", int64(stride))
}
