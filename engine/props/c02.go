package props

import (
	"fmt"
	"sort"
	"strconv"
	"strings"
	"sync"

	"github.com/AdguardTeam/urlfilter"
	"github.com/AdguardTeam/urlfilter/filterlist"
	"github.com/AdguardTeam/urlfilter/rules"

	"verif/ev"
	"verif/statespace"
)

// C02 — DNS engine answer equals the reference resolution over all rules (E2).

type c02Line struct {
	text string
	// dnsApplicable: the line is a network rule without browser-only modifiers
	dnsApplicable bool
	s             *srule // structure of network lines (for the precedence reference)
}

// c02NCore is the number of leading lines of the alphabet that form its core.
var c02NCore int

func c02Alphabet() (lines []c02Line, hA, hB string) {
	a := c01GetAlphabet()
	hA, hB = a.hA, a.hB
	net := func(exc bool, pat string, dns bool, opts ...string) c02Line {
		s := srule{exc, pat, opts}
		return c02Line{text: s.text(), dnsApplicable: dns, s: &s}
	}
	const p = "||example.org^"
	lines = []c02Line{
		net(false, p, true),
		net(true, p, true),
		net(false, p, true, "important"),
		net(true, p, true, "important"),
		net(false, p, true, "badfilter"),
		net(false, p, true, "dnsrewrite=1.2.3.4"),
		net(false, p, false, "script"),
		net(false, p, false, "domain=x.com"),
		net(false, p, false, "third-party"),
		net(false, p, true, "client=10.0.0.1"),
		net(false, p, true, "ctag=pc"),
		net(false, p, true, "dnstype=AAAA"),
		net(false, p, true, "denyallow=sub.example.org"),
		net(false, p, true, "dnstype=AAAA", "badfilter"),
		net(false, p, true, "dnstype=~AAAA"),
		net(false, p, true, "dnstype=~A", "badfilter"),
		{text: "0.0.0.0 example.org"},
		{text: ":: example.org"},
		{text: "::ffff:1.2.3.4 example.org"},
		{text: "127.0.0.1 example.org sub.example.org"},
		{text: "example.org"},
		{text: "0.0.0.0 " + hA},
		{text: "1.1.1.1 " + hB},
		net(false, "||"+hB+"^", true),
		net(false, "||ads.пример.рф^", true), // shortcut windows with bytes >= 0x80
		{text: "0.0.0.0 ads.пример.рф"},
		net(true, ".org^", true, "important"), // short pattern: lands in the sequential table, found last
		// ---- the lines below are the extended alphabet (explored one level less deep)
		{text: "0.0.0.0 Tracker.Example.ORG sub.example.org"}, // a name with upper-case letters, asked for verbatim
		net(false, p, true, "client=192.168.0.0/16|fd00::/8"),
		net(false, p, true, "client=~127.0.0.1|~::1"),
		net(false, p, true, "client=10.0.0.0/8|~10.0.0.1"), // a client inside both the permitted and the restricted set
		net(false, p, true, "client=laptop|~laptop"),
		net(false, "||cafe.de^", true, "denyallow=x.test"),
		net(false, "/sub.", true),                                                          // a "/label." pattern: applied to "http://" + host name, the slash being the last one of the scheme
		net(false, "http://example.org^", true),                                            // the scheme spelled out: filed under a window of "http://"
		{text: "0.0.0.0 sub.example.org # see lists.example.net/hosts.txt##ads and x#@#y"}, // element-hiding markers further inside a comment
		{text: "0.0.0.0 example.org sub.example.org # src: https://x.test/l?a=b|c^*$@"},    // a host name spelled with hexadecimal digits only is not an address
		net(false, p, false, "third-party", "important"),                                   // browser-only modifier next to a DNS-level one
		net(true, p, false, "document", "important"),
		net(false, p, false, "popup", "important"),
		net(true, p, true, "dnsrewrite=1.2.3.4"), // an exception to the rewrite of the core alphabet: a request may match rewrite rules only
	}
	for i, l := range lines {
		if strings.HasPrefix(l.text, "0.0.0.0 Tracker.Example.ORG") {
			c02NCore = i
		}
	}
	return lines, hA, hB
}

type c02Req struct {
	r    urlfilter.DNSRequest
	desc string
}

func c02Requests(hA, hB string) (qs []c02Req) {
	for _, h := range []string{"example.org", "sub.example.org", hA, hB, "EXAMPLE.ORG", "", "ads.пример.рф", "Tracker.Example.ORG", "cafe.de", "example.example.org"} {
		for _, t := range []uint16{1, 28, 16} {
			for ci, cl := range []struct{ name, ip string }{{"", ""}, {"laptop", ""}, {"", "10.0.0.1"}, {"", "fd00::17"}, {"", "::1"}} {
				for ti, tags := range [][]string{nil, {"pc"}} {
					r := urlfilter.DNSRequest{Hostname: h, DNSType: t, ClientName: cl.name, SortedClientTags: tags}
					if cl.ip != "" {
						r.ClientIP = mustAddr(cl.ip)
					}
					qs = append(qs, c02Req{r, fmt.Sprintf("host=%q type=%d client#%d tags#%d", h, t, ci, ti)})
				}
			}
		}
	}
	return qs
}

// c02Size: six lists with ids in no particular order, sixty rules for one host
// name that differ in their client tag, sixty hosts lines; requests with one,
// ten and twenty sorted client tags.
func c02Size(c *Ctx) (evals int64) {
	ids := []int{50, 10, 40, 20, 30, 15}
	var ls []filterlist.RuleList
	tagRule := map[string]string{}
	var hostNames []string
	for k, id := range ids {
		var sb strings.Builder
		fmt.Fprintf(&sb, "! list %d\n", id)
		for j := 0; j < 10; j++ {
			tag := fmt.Sprintf("t%d%d", k, j)
			rule := "||net.tracking-network-metrics.size.test^$ctag=" + tag
			tagRule[tag] = rule
			sb.WriteString(rule + "\n")
			hn := fmt.Sprintf("hs%d%d.size.test", k, j)
			hostNames = append(hostNames, hn)
			sb.WriteString("0.0.0.0 " + hn + "\n")
		}
		// a rule with two tags, the first of which no request carries
		two := fmt.Sprintf("||net.tracking-network-metrics.size.test^$ctag=a8|t%d5,important", k)
		tagRule[fmt.Sprintf("t%d5+", k)] = two
		sb.WriteString(two + "\n")
		if k == len(ids)-1 {
			sb.WriteString("@@||net.tracking-network-metrics.size.test^$ctag=t00\n")
		}
		ls = append(ls, &filterlist.StringRuleList{ID: id, RulesText: sb.String()})
		if k == 2 {
			// a list that holds no rule at all between the others
			ls = append(ls, &filterlist.StringRuleList{ID: 45, RulesText: "! nothing but comments\n!\n"})
		}
	}
	st, err := filterlist.NewRuleStorage(ls)
	if err != nil {
		panic(HarnessError(err.Error()))
	}
	e := urlfilter.NewDNSEngine(st)
	tagSets := [][]string{{"t00"}, {"t59"}, {"t30", "t31"}}
	var ten, twenty []string
	for j := 0; j < 10; j++ {
		ten = append(ten, fmt.Sprintf("t2%d", j))
		twenty = append(twenty, fmt.Sprintf("t0%d", j), fmt.Sprintf("t4%d", j))
	}
	sort.Strings(twenty)
	tagSets = append(tagSets, ten, twenty, append([]string{"a0", "a1", "a2", "a3", "a4", "a5", "a6", "a7"}, "t15", "t16"))
	for _, tags := range tagSets {
		evals++
		var want []string
		allow := false
		important := false
		for _, t := range tags {
			if r, ok := tagRule[t]; ok {
				want = append(want, r)
			}
			if r, ok := tagRule[t+"+"]; ok {
				want = append(want, r)
				important = true
			}
			if t == "t00" {
				want = append(want, "@@||net.tracking-network-metrics.size.test^$ctag=t00")
				allow = true
			}
		}
		res, matched := e.MatchRequest(&urlfilter.DNSRequest{Hostname: "net.tracking-network-metrics.size.test", DNSType: 1, SortedClientTags: tags})
		wantClass := 1
		if allow {
			wantClass = 2
		}
		if important {
			wantClass = 3 // an important block beats the plain exception
		}
		if len(want) == 0 {
			wantClass = 0
		}
		if got := sortedSet(netTexts(res.NetworkRules)); !eqStrings(got, sortedSet(want)) || c06ClassOfRule(res.NetworkRule) != wantClass || matched != (len(want) > 0) {
			c.Run.Violate(ev.Violation{Pred: "dns-answer-equals-reference", Sig: map[string]any{"size_layer": "tags", "tags": len(tags)},
				What:   fmt.Sprintf("six lists (ids %v), 60 rules for net.tracking-network-metrics.size.test by client tag, request with tags %v: matched=%v class=%s rules=%v; expected class=%s rules=%v", ids, tags, matched, c06ClassNames[c06ClassOfRule(res.NetworkRule)], got, c06ClassNames[wantClass], sortedSet(want)),
				Replay: map[string]any{"history": []int{}}})
			return evals
		}
	}
	for i, hn := range hostNames {
		if i%7 != 0 && i != len(hostNames)-1 {
			continue
		}
		evals++
		res, matched := e.MatchRequest(&urlfilter.DNSRequest{Hostname: hn, DNSType: 1})
		if !matched || len(res.HostRulesV4) != 1 || res.HostRulesV4[0].RuleText != "0.0.0.0 "+hn {
			c.Run.Violate(ev.Violation{Pred: "dns-answer-equals-reference", Sig: map[string]any{"size_layer": "hosts", "name": hn},
				What:   fmt.Sprintf("six lists (ids %v) with 60 hosts lines: query %q: matched=%v v4=%d", ids, hn, matched, len(res.HostRulesV4)),
				Replay: map[string]any{"history": []int{}}})
			return evals
		}
	}
	return evals
}

// c02CrossValidate compares NetworkRule.Match, which the reference resolution
// trusts, with the structural reference matcher (C04's) on every network line
// of the alphabet and every request: a matcher that is wrong on the alphabet
// makes the DNS answer wrong although engine and linear scan still agree.
func c02CrossValidate(c *Ctx, lines []c02Line, reqs []c02Req) (evals int64) {
	for _, l := range lines {
		if l.s == nil {
			continue
		}
		sr, ok := sruleToC04(*l.s)
		if !ok || !isASCII(l.text) {
			continue // the reference automaton is defined over ASCII
		}
		nr, err := rules.NewNetworkRule(l.text, 1)
		if err != nil {
			continue
		}
		for _, q := range reqs {
			if h := q.r.Hostname; h == "" || !isASCII(h) || h != strings.ToLower(h) {
				continue // DNS host names reach the engine in lower case
			}
			req := rules.NewRequestForHostname(q.r.Hostname)
			req.SortedClientTags, req.ClientIP, req.ClientName, req.DNSType = q.r.SortedClientTags, q.r.ClientIP, q.r.ClientName, q.r.DNSType
			evals++
			if got, want := nr.Match(req), c04Reference(sr, req); got != want {
				c.Run.Violate(ev.Violation{Pred: "alphabet-rule-matches-as-written", Sig: map[string]any{"rule": l.text, "request": q.desc},
					What:   fmt.Sprintf("rule %q on DNS request [%s]: Match = %v, the modifiers as written give %v", l.text, q.desc, got, want),
					Replay: map[string]any{"history": []int{}}})
				break
			}
		}
	}
	return evals
}

type c02Model struct {
	c     *Ctx
	lines []c02Line
	reqs  []c02Req
}

func (m *c02Model) run(hist []int) statespace.Outcome {
	var texts []string
	for _, i := range hist {
		texts = append(texts, m.lines[i].text)
	}
	content := joinLines(texts)
	if len(texts) > 0 {
		content += "\n"
	}
	st, err := filterlist.NewRuleStorage([]filterlist.RuleList{&filterlist.StringRuleList{ID: 0, RulesText: content}})
	if err != nil {
		panic(HarnessError(err.Error()))
	}
	violate := func(pred string, sig map[string]any, what string) {
		m.c.Run.Violate(ev.Violation{Pred: pred, Sig: sig, What: what, Replay: map[string]any{"history": hist}})
	}
	var e *urlfilter.DNSEngine
	if p := protect(func() { e = urlfilter.NewDNSEngine(st) }); p != nil {
		violate("no-crash", map[string]any{"lines": texts}, fmt.Sprintf("NewDNSEngine over %q panics: %v", texts, p))
		return statespace.Outcome{Key: "panic"}
	}
	// independently parsed rules
	type parsedLine struct {
		net  *rules.NetworkRule
		host *rules.HostRule
		l    c02Line
	}
	idxText := map[int64]string{}
	var parsed []parsedLine
	off := 0
	for _, i := range hist {
		l := m.lines[i]
		idxText[filterlist.VerifStorageIdx(0, int32(off))] = l.text
		off += len(l.text) + 1
		r, err := rules.NewRule(l.text, 1)
		if err != nil || r == nil {
			// every line of the alphabet is well-formed (it parses on the tree the
			// alphabet was written for): rejecting it loses its rule
			violate("well-formed-line-is-accepted", map[string]any{"line": l.text}, fmt.Sprintf("NewRule(%q) = %v, %v", l.text, r, err))
			return statespace.Outcome{Key: "rejected"}
		}
		pl := parsedLine{l: l}
		switch r := r.(type) {
		case *rules.NetworkRule:
			if l.s == nil {
				violate("hosts-line-is-a-host-rule", map[string]any{"line": l.text}, fmt.Sprintf("the hosts-file line %q parses as a network rule", l.text))
				return statespace.Outcome{Key: "misparsed"}
			}
			pl.net = r
		case *rules.HostRule:
			pl.host = r
		}
		parsed = append(parsed, pl)
	}
	var obs strings.Builder
	reported := false
	for _, q := range m.reqs {
		var res *urlfilter.DNSResult
		var matched bool
		rq := q.r
		if p := protect(func() { res, matched = e.MatchRequest(&rq) }); p != nil {
			violate("no-crash", map[string]any{"lines": texts, "request": q.desc}, fmt.Sprintf("MatchRequest(%s) over %q panics: %v", q.desc, texts, p))
			break
		}
		// reference
		var wantNR []string
		var cands []srule
		var wantV4, wantV6 []string
		if q.r.Hostname != "" {
			req := rules.NewRequestForHostname(q.r.Hostname)
			req.ClientIP, req.ClientName, req.SortedClientTags, req.DNSType = q.r.ClientIP, q.r.ClientName, q.r.SortedClientTags, q.r.DNSType
			for _, pl := range parsed {
				if pl.net != nil && pl.l.dnsApplicable && pl.net.Match(req) {
					wantNR = append(wantNR, pl.l.text)
					cands = append(cands, *pl.l.s)
				}
			}
		}
		wantClass := c06Reference(cands, nil, true)
		wantMatched := wantClass != 0
		if wantClass == 0 && q.r.Hostname != "" {
			for _, pl := range parsed {
				if pl.host == nil {
					continue
				}
				// names and address family as written in the line (read without the library)
				// (the alphabet's hosts lines are "address name..." or a bare name, the comment starts at " #")
				body, _, _ := strings.Cut(pl.l.text, " #")
				fields := strings.Fields(body)
				addr, names := "0.0.0.0", fields
				if len(fields) > 1 {
					addr, names = fields[0], fields[1:]
				}
				listed := false
				for _, n := range names {
					if n == q.r.Hostname {
						listed = true
					}
				}
				if listed {
					if !strings.Contains(addr, ":") {
						wantV4 = append(wantV4, pl.l.text)
					} else {
						wantV6 = append(wantV6, pl.l.text)
					}
				}
			}
			wantMatched = len(wantV4)+len(wantV6) > 0
		}
		var gotV4, gotV6 []string
		for _, h := range res.HostRulesV4 {
			gotV4 = append(gotV4, h.RuleText)
		}
		for _, h := range res.HostRulesV6 {
			gotV6 = append(gotV6, h.RuleText)
		}
		gotClass := c06ClassOfRule(res.NetworkRule)
		got := fmt.Sprintf("matched=%v class=%s rules=%v v4=%v v6=%v", matched, c06ClassNames[gotClass], sortedSet(netTexts(res.NetworkRules)), sortedSet(gotV4), sortedSet(gotV6))
		want := fmt.Sprintf("matched=%v class=%s rules=%v v4=%v v6=%v", wantMatched, c06ClassNames[wantClass], sortedSet(wantNR), sortedSet(wantV4), sortedSet(wantV6))
		obs.WriteString(strconv.Itoa(gotClass))
		if dup := moreOftenThan(netTexts(res.NetworkRules), wantNR); dup != "" && !reported {
			reported = true
			violate("dns-answer-equals-reference", map[string]any{"lines": sortedSet(texts), "request": q.desc, "duplicate": dup},
				fmt.Sprintf("list %q, request %s: NetworkRules %v holds %q more often than the list does", texts, q.desc, netTexts(res.NetworkRules), dup))
		}
		if (got != want || c06Special(res.NetworkRule) != "") && !reported {
			reported = true
			violate("dns-answer-equals-reference", map[string]any{"lines": sortedSet(texts), "request": q.desc},
				fmt.Sprintf("list %q, request %s: engine %s (rule %s), reference %s", texts, q.desc, got, renderNetText(res.NetworkRule), want))
		}
		// the accessors of the result only read it: the answer is the same after they have been called
		if p := protect(func() { _ = res.DNSRewrites(); _ = res.DNSRewritesAll(); _ = res.DNSRewrites() }); p != nil && !reported {
			reported = true
			violate("no-crash", map[string]any{"lines": sortedSet(texts), "request": q.desc, "route": "DNSRewrites"}, fmt.Sprintf("list %q, request %s: DNSRewrites/DNSRewritesAll on the result panic: %v", texts, q.desc, p))
		}
		if after := fmt.Sprintf("matched=%v class=%s rules=%v v4=%v v6=%v", matched, c06ClassNames[c06ClassOfRule(res.NetworkRule)], sortedSet(netTextsSafe(res.NetworkRules)), sortedSet(gotV4), sortedSet(gotV6)); after != got && !reported {
			reported = true
			violate("dns-answer-equals-reference", map[string]any{"lines": sortedSet(texts), "request": q.desc, "route": "result read again after DNSRewrites"},
				fmt.Sprintf("list %q, request %s: the result reads %s; after DNSRewrites() and DNSRewritesAll() have been called on it, it reads %s", texts, q.desc, got, after))
		}
	}
	// the other routes to the same answer: the Match(hostname) wrapper, the same request object asked again,
	// and the same lines in a list loaded with IgnoreCosmetic under another id
	if !reported && (len(hist) <= 2 || m.c.Thorough()) {
		st2, err2 := filterlist.NewRuleStorage([]filterlist.RuleList{&filterlist.StringRuleList{ID: 7, RulesText: "! dns list\n" + content, IgnoreCosmetic: true}})
		if err2 != nil {
			panic(HarnessError(err2.Error()))
		}
		var e2 *urlfilter.DNSEngine
		if p := protect(func() { e2 = urlfilter.NewDNSEngine(st2) }); p != nil {
			violate("no-crash", map[string]any{"lines": texts, "route": "IgnoreCosmetic"}, fmt.Sprintf("NewDNSEngine over %q loaded with IgnoreCosmetic panics: %v", texts, p))
			return statespace.Outcome{Key: "panic"}
		}
		short := func(res *urlfilter.DNSResult, matched bool) string {
			if res == nil {
				return fmt.Sprintf("matched=%v <nil result>", matched)
			}
			var v4, v6 []string
			for _, h := range res.HostRulesV4 {
				v4 = append(v4, h.RuleText)
			}
			for _, h := range res.HostRulesV6 {
				v6 = append(v6, h.RuleText)
			}
			return fmt.Sprintf("matched=%v rule=%s rules=%v v4=%v v6=%v", matched, renderNetText(res.NetworkRule), netTexts(res.NetworkRules), v4, v6)
		}
		for _, q := range m.reqs {
			rq, rq2 := q.r, q.r
			var a, b string
			if p := protect(func() { a = short(e.MatchRequest(&rq)); b = short(e2.MatchRequest(&rq2)) }); p != nil {
				violate("no-crash", map[string]any{"lines": texts, "request": q.desc, "route": "IgnoreCosmetic"}, fmt.Sprintf("MatchRequest(%s) over %q loaded with IgnoreCosmetic panics: %v", q.desc, texts, p))
				reported = true
				break
			}
			if a != b {
				reported = true
				violate("dns-answer-equals-reference", map[string]any{"lines": sortedSet(texts), "request": q.desc, "route": "IgnoreCosmetic"},
					fmt.Sprintf("list %q, request %s: loaded with IgnoreCosmetic (id 7, after a comment line) the engine answers %s, loaded plainly %s", texts, q.desc, b, a))
				break
			}
		}
	}
	if !reported && (len(hist) <= 2 || m.c.Thorough()) {
		render := func(res *urlfilter.DNSResult, matched bool) string {
			if res == nil {
				return fmt.Sprintf("matched=%v <nil result>", matched)
			}
			var v4, v6 []string
			for _, h := range res.HostRulesV4 {
				v4 = append(v4, h.RuleText)
			}
			for _, h := range res.HostRulesV6 {
				v6 = append(v6, h.RuleText)
			}
			return fmt.Sprintf("matched=%v rule=%s rules=%v v4=%v v6=%v", matched, renderNetText(res.NetworkRule), netTexts(res.NetworkRules), v4, v6)
		}
		plain := map[string]string{}
		for _, q := range m.reqs {
			rq := q.r
			var a, b, w string
			if _, ok := plain[rq.Hostname]; !ok {
				pr := urlfilter.DNSRequest{Hostname: rq.Hostname}
				if p := protect(func() { plain[rq.Hostname] = render(e.MatchRequest(&pr)) }); p != nil {
					plain[rq.Hostname] = fmt.Sprintf("panic: %v", p)
				}
			}
			if p := protect(func() {
				a = render(e.MatchRequest(&rq))
				b = render(e.MatchRequest(&rq))
				// the wrapper, right after a request that carried this request's client fields
				w = render(e.Match(rq.Hostname))
			}); p != nil {
				violate("no-crash", map[string]any{"lines": texts, "request": q.desc, "route": "repeat"}, fmt.Sprintf("MatchRequest(%s) asked again over %q panics: %v", q.desc, texts, p))
				break
			}
			if a != b {
				violate("dns-answer-equals-reference", map[string]any{"lines": sortedSet(texts), "request": q.desc, "route": "same request object again"},
					fmt.Sprintf("list %q, request %s: the same request object asked twice gives %s, then %s", texts, q.desc, a, b))
				break
			}
			if w != plain[rq.Hostname] {
				violate("dns-answer-equals-reference", map[string]any{"lines": sortedSet(texts), "hostname": rq.Hostname, "route": "Match(hostname)"},
					fmt.Sprintf("list %q: DNSEngine.Match(%q) right after the request %s gives %s, MatchRequest with nothing but the host name gives %s", texts, rq.Hostname, q.desc, w, plain[rq.Hostname]))
				break
			}
		}
	}
	dump := urlfilter.VerifDNSEngineDump(e)
	key := reBucket.ReplaceAllStringFunc(dump, func(s string) string {
		var parts []string
		for _, f := range strings.Fields(strings.Trim(s, "[]")) {
			n, err := strconv.ParseInt(f, 10, 64)
			if err != nil {
				parts = append(parts, f)
				continue
			}
			parts = append(parts, idxText[n])
		}
		return "[" + strings.Join(parts, " ; ") + "]"
	})
	return statespace.Outcome{Key: key, Observation: obs.String()}
}

func init() {
	register("C02", "model_checking", func(c *Ctx) {
		lines, hA, hB := c02Alphabet()
		m := &c02Model{c: c, lines: lines, reqs: c02Requests(hA, hB)}
		if c.Replay != nil {
			var hist []int
			for _, v := range c.Replay["history"].([]any) {
				hist = append(hist, int(v.(float64)))
			}
			m.run(hist)
			return
		}
		c.Run.Set("alphabet_matcher_cross_validations", c02CrossValidate(c, lines, m.reqs))
		c.Run.Set("size_layer_evaluations", c02Size(c))
		model := statespace.Model{NOps: len(lines), Run: m.run}
		depth, guard := 4, 2
		if c.Thorough() {
			depth, guard = 5, 3
		}
		g := statespace.BFS(model, guard, false, c.Workers, c.Deadline)
		// the core alphabet to the full depth, the whole alphabet one level less deep
		core := statespace.Model{NOps: c02NCore, Run: m.run}
		s := statespace.BFS(core, depth, true, c.Workers, c.Deadline)
		s2 := statespace.BFS(model, depth-1, true, c.Workers, c.Deadline)
		c.Run.Set("core_alphabet", int64(c02NCore))
		c.Run.Set("extended_states", s2.States)
		c.Run.Set("extended_depth_bound", int64(depth-1))
		s.Transitions += s2.Transitions
		s.DeadlineHit = s.DeadlineHit || s2.DeadlineHit
		c02Corpus(c)
		c.Run.Sample(map[string]any{"history": []string{lines[0].text, lines[4].text, lines[14].text}, "requests": len(m.reqs)})
		c.Run.Sample(map[string]any{"history": []string{lines[19].text, lines[20].text, lines[21].text}, "note": "colliding host names share a bucket of the host table"})
		c.Run.Set("states", s.States)
		c.Run.Set("transitions", s.Transitions+g.Transitions)
		c.Run.Set("traces_validated_against_impl", (s.Transitions+g.Transitions)*int64(len(m.reqs)))
		c.Run.Set("states_per_depth", s.PerDepth)
		c.Run.Set("max_depth", int64(s.MaxDepth))
		c.Run.Set("depth_bound", int64(depth))
		c.Run.Set("non_dedup_guard_depth", int64(guard))
		c.Run.Set("non_dedup_guard_histories", g.States)
		c.Run.Set("distinct_observations", s.DistinctOutcomes)
		c.Run.Set("requests_per_state", int64(len(m.reqs)))
		c.Run.Set("line_alphabet", int64(len(lines)))
		c.Run.Set("exhaustive", !s.DeadlineHit && !g.DeadlineHit)
		c.Run.Set("explanation", "state = canonical dump of the DNS host table and the embedded network engine tables of a real DNSEngine; transition = append one line of the alphabet (adblock-style rules with every DNS-relevant and browser-only modifier, $badfilter, $dnsrewrite, hosts lines of both families, IPv4-mapped, multi-name, bare domain, colliding names); in every state MatchRequest is compared with the reference resolution for every request")
		c.Run.Assumption("which alphabet lines are DNS-applicable is fixed in the alphabet table ($domain, $third-party and content-type rules are browser-only)")
		c.Run.Assumption("NetworkRule.Match / HostRule.Match on independently parsed rules define 'matches the hostname' (properties C04 and C18); on the network lines of the alphabet NetworkRule.Match is itself compared with the structural reference matcher for every request")
	})
}

// c02Corpus compares the DNS engine built over the bundled hosts file and DNS
// filter with the linear scan, for the host names of the recorded requests and
// a stride of the names listed in the hosts file.
func c02Corpus(c *Ctx) {
	var ls []filterlist.RuleList
	var nets []*rules.NetworkRule
	var hostRules []*rules.HostRule
	for li, rel := range []string{"testdata/hosts", "testdata/adguard_sdn_filter.txt"} {
		content := corpusContent(rel)
		if content == "" {
			continue
		}
		ls = append(ls, &filterlist.StringRuleList{ID: li, RulesText: content, IgnoreCosmetic: true})
		for _, l := range corpusLines(rel) {
			r, err := rules.NewRule(l, li)
			if err != nil || r == nil {
				continue
			}
			switch r := r.(type) {
			case *rules.NetworkRule:
				if r.IsHostLevelNetworkRule() {
					nets = append(nets, r)
				}
			case *rules.HostRule:
				hostRules = append(hostRules, r)
			}
		}
	}
	if len(ls) == 0 {
		c.Run.Set("corpus_layer", "bundled lists not found")
		return
	}
	st, err := filterlist.NewRuleStorage(ls)
	if err != nil {
		panic(HarnessError(err.Error()))
	}
	e := urlfilter.NewDNSEngine(st)
	byName := map[string][]*rules.HostRule{}
	for _, h := range hostRules {
		for _, n := range h.Hostnames {
			byName[n] = append(byName[n], h)
		}
	}
	seen := map[string]bool{}
	var names []string
	add := func(n string) {
		if n != "" && !seen[n] {
			seen[n] = true
			names = append(names, n)
		}
	}
	stride := 40
	if c.Thorough() {
		stride = 4
	}
	for _, r := range corpusRequests() {
		add(strings.ToLower(rules.NewRequest(r.URL, "", r.Type).Hostname))
	}
	for i, h := range hostRules {
		if i%stride == 0 {
			for _, n := range h.Hostnames {
				add(n)
				add("www." + n)
				if j := strings.IndexByte(n, '.'); j > 0 {
					add(n[j+1:])
				}
			}
		}
	}
	var mu sync.Mutex
	var compared, nonEmpty int64
	c.parallel(len(names), func(i int) {
		if c.Expired() {
			return
		}
		name := names[i]
		res, matched := e.MatchRequest(&urlfilter.DNSRequest{Hostname: name, DNSType: 1})
		req := rules.NewRequestForHostname(name)
		req.DNSType = 1
		var wantNR []string
		for _, r := range nets {
			if r.Match(req) {
				wantNR = append(wantNR, r.RuleText)
			}
		}
		var wantV4, wantV6, gotV4, gotV6 []string
		for _, h := range byName[name] {
			if h.IP.Is4() {
				wantV4 = append(wantV4, h.RuleText)
			} else {
				wantV6 = append(wantV6, h.RuleText)
			}
		}
		for _, h := range res.HostRulesV4 {
			gotV4 = append(gotV4, h.RuleText)
		}
		for _, h := range res.HostRulesV6 {
			gotV6 = append(gotV6, h.RuleText)
		}
		bad := ""
		switch {
		case !eqStrings(sortedSet(netTexts(res.NetworkRules)), sortedSet(wantNR)):
			bad = fmt.Sprintf("NetworkRules %v, linear scan %v", sortedSet(netTexts(res.NetworkRules)), sortedSet(wantNR))
		case res.NetworkRule != nil && (c06Special(res.NetworkRule) != "" || !res.NetworkRule.Match(req)):
			bad = "NetworkRule " + res.NetworkRule.RuleText + " is not an applicable matching rule"
		case res.NetworkRule != nil && (len(gotV4)+len(gotV6) > 0 || !matched):
			bad = "a basic rule was found but host rules were consulted or matched is false"
		case res.NetworkRule == nil && (!eqStrings(sortedSet(gotV4), sortedSet(wantV4)) || !eqStrings(sortedSet(gotV6), sortedSet(wantV6))):
			// without a basic rule the host entries naming the host are returned (unless a non-basic network rule set stands in the way: none is basic here)
			if len(wantNR) == 0 || rules.GetDNSBasicRule(res.NetworkRules) == nil {
				bad = fmt.Sprintf("host rules v4=%v v6=%v, linear scan v4=%v v6=%v", sortedSet(gotV4), sortedSet(gotV6), sortedSet(wantV4), sortedSet(wantV6))
			}
		}
		mu.Lock()
		compared++
		if len(wantNR)+len(wantV4)+len(wantV6) > 0 {
			nonEmpty++
		}
		mu.Unlock()
		if bad != "" {
			c.Run.Violate(ev.Violation{Pred: "corpus-dns-answer-equals-linear-scan", Sig: map[string]any{"hostname": name},
				What: fmt.Sprintf("DNS engine over the bundled hosts file and DNS filter, query %q: %s", name, bad), Replay: map[string]any{"history": []int{}}})
		}
	})
	c.Run.Set("corpus_network_rules", int64(len(nets)))
	c.Run.Set("corpus_host_rules", int64(len(hostRules)))
	c.Run.Set("corpus_hostnames_compared", compared)
	c.Run.Set("corpus_hostnames_with_matches", nonEmpty)
}
