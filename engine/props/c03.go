package props

import (
	"fmt"
	"regexp"
	"strings"
	"sync"
	"sync/atomic"

	"github.com/AdguardTeam/urlfilter/rules"

	"verif/automata"
	"verif/enum"
	"verif/ev"
	"verif/ref"
)

// C03 — compiled basic patterns accept exactly the documented mask language.
// Decided per pattern for ALL strings over graphic ASCII by exploring the
// product (DFA of the rule's compiled program) x (reference automaton).

var c03Tokens = []string{"||", "|", "*", "^", "a", "B", "z", "1", ".", "/", "?", "+", "(", ")", "[", "]", "{", "}", "\\", "$", "-", "_", "%", ":", "=", "&", "{2}", "{1,2}"}

const c03Source = "http://example.org/"

// maskRule is a mask pattern turned into a parsed rule.
type maskRule struct {
	pattern   string // as enumerated
	effective string // after the documented "/*" rewrite
	matchCase bool
	text      string
	rule      *rules.NetworkRule
}

// buildMaskRule returns nil and a reason when the pattern cannot be expressed
// as a rule.
func buildMaskRule(p string, matchCase bool) (*maskRule, string) {
	if len(p) > 1 && p[0] == '/' && p[len(p)-1] == '/' {
		return nil, "regex-form"
	}
	eff := ref.EffectivePattern(p)
	opts := "$domain=example.org"
	if matchCase {
		opts += ",match-case"
	} else if len(p)%2 == 1 {
		// "not match-case" written out (for half of the patterns): the same as leaving it out
		opts += ",~match-case"
	}
	text := p + opts
	r, err := rules.NewNetworkRule(text, 1)
	if err == nil && !strings.HasSuffix(p, "\\") {
		// The reference is built from the documented effective pattern; if the
		// implementation derives another one, the language comparison shows it.
		return &maskRule{p, eff, matchCase, text, r}, ""
	}
	// "\$" is the escaped options delimiter: a pattern ending in a backslash
	// cannot carry options; try without them
	if !matchCase && len(p) >= 3 {
		r, err = rules.NewNetworkRule(p, 1)
		if err == nil && rules.VerifPattern(r) == eff {
			return &maskRule{p, eff, matchCase, p, r}, ""
		}
	}
	if err != nil {
		return nil, "rejected-by-parser"
	}
	return nil, "not-representable"
}

func (m *maskRule) request(u string) *rules.Request {
	return rules.NewRequest(u, c03Source, rules.TypeOther)
}

// implAutomaton returns the automaton of the rule's compiled matcher.
func implAutomaton(r *rules.NetworkRule) (a automata.Automaton, re *regexp.Regexp, status int, panicked any) {
	re, status, panicked = rules.VerifRegexp(r)
	if panicked != nil {
		return nil, nil, status, panicked
	}
	switch status {
	case 0:
		return automata.Const(true), nil, status, nil
	case -1:
		return automata.Const(false), nil, status, nil
	}
	d, err := automata.NewProgDFA(re)
	if err != nil {
		panic(HarnessError(fmt.Sprintf("cannot re-compile %q: %v", re.String(), err)))
	}
	return d, re, status, nil
}

type c03Counters struct {
	patterns, rejected, notRepr, states, transitions, witnesses, nontrivial atomic.Int64
}

// c03CheckPattern decides the property for one pattern.
func c03CheckPattern(c *Ctx, p string, matchCase bool, cnt *c03Counters, alphabet []rune) {
	m, why := buildMaskRule(p, matchCase)
	if m == nil {
		switch why {
		case "rejected-by-parser":
			cnt.rejected.Add(1)
		case "not-representable":
			cnt.notRepr.Add(1)
		}
		return
	}
	cnt.patterns.Add(1)
	sig := map[string]any{"pattern": p, "match_case": matchCase}
	replay := map[string]any{"pattern": p, "match_case": matchCase}

	impl, re, status, panicked := implAutomaton(m.rule)
	if panicked == nil {
		// the first Match must not crash either
		if pm := protect(func() { m.rule.Match(m.request("http://example.org/a")) }); pm != nil {
			panicked = pm
		}
	}
	if panicked != nil {
		c.Run.Violate(ev.Violation{Pred: "no-crash", Sig: sig, What: fmt.Sprintf("rule %q: matching panics: %v", m.text, panicked), Replay: replay})
		return
	}
	lower := automata.Determinise(ref.MaskNFA(m.effective, matchCase, !matchCase))
	upper := automata.Determinise(ref.MaskNFA(m.effective, matchCase, true))
	autos := []automata.Automaton{impl, lower, upper}
	if sc := m.rule.Shortcut; sc != "" && isASCII(sc) {
		// Match also looks for the lower-cased shortcut in the lower-cased URL:
		// that is state of the matcher too, so strings that differ in it get
		// their own product states (and witnesses replayed on Match)
		autos = append(autos, automata.Fold{A: automata.NewKMP(sc)})
	}
	reported := false
	accepting, rejecting := false, false
	thorough := c.Thorough()
	st := automata.Product(autos, alphabet, 200000, func(s []int, wit func() string) bool {
		ia, la, ua := impl.AcceptEnd(s[0]), lower.AcceptEnd(s[1]), upper.AcceptEnd(s[2])
		if ia {
			accepting = true
		} else {
			rejecting = true
		}
		w := wit()
		// conformance: the model of the implementation must agree with the real matcher
		cnt.witnesses.Add(1)
		real := ia
		if status == 1 {
			real = re.MatchString(w)
			if real != ia {
				panic(HarnessError(fmt.Sprintf("ProgDFA and regexp disagree on %q for %q: dfa=%v regexp=%v", w, re.String(), ia, real)))
			}
			if thorough {
				for _, ch := range alphabet {
					w2 := w + string(ch)
					cnt.witnesses.Add(1)
					if re.MatchString(w2) != impl.AcceptEnd(impl.Step(s[0], ch)) {
						panic(HarnessError(fmt.Sprintf("ProgDFA and regexp disagree on %q for %q", w2, re.String())))
					}
				}
			}
		}
		mres := m.rule.Match(m.request(w))
		if reported {
			return true
		}
		switch {
		case la && !ia:
			reported = true
			c.Run.Violate(ev.Violation{Pred: "reference-subset-of-compiled", Sig: sig,
				What:   fmt.Sprintf("pattern %q (match-case=%v): the mask language contains %q but the compiled matcher %q rejects it", p, matchCase, w, reString(re, status)),
				Replay: replay})
		case ia && !ua:
			reported = true
			c.Run.Violate(ev.Violation{Pred: "compiled-subset-of-reference", Sig: sig,
				What:   fmt.Sprintf("pattern %q (match-case=%v): the compiled matcher %q accepts %q which is outside the mask language", p, matchCase, reString(re, status), w),
				Replay: replay})
		case la && !mres:
			reported = true
			c.Run.Violate(ev.Violation{Pred: "match-accepts-reference-language", Sig: sig,
				What:   fmt.Sprintf("rule %q: %q is in the mask language of the pattern but Match rejects it (shortcut %q)", m.text, w, m.rule.Shortcut),
				Replay: replay})
		case mres && !ua:
			reported = true
			c.Run.Violate(ev.Violation{Pred: "match-within-reference-language", Sig: sig,
				What:   fmt.Sprintf("rule %q: Match accepts %q which is outside the mask language", m.text, w),
				Replay: replay})
		}
		return true
	})
	cnt.states.Add(int64(st.States))
	cnt.transitions.Add(int64(st.Transitions))
	if st.CapHit {
		c.Run.Add("state_cap_hit", 1)
	}
	if accepting && rejecting {
		cnt.nontrivial.Add(1)
	}
}

func reString(re *regexp.Regexp, status int) string {
	switch status {
	case 0:
		return "<match all>"
	case -1:
		return "<invalid>"
	}
	return re.String()
}

// c03Patterns enumerates all token sequences of length 1..n ("||" only in the
// first position) plus the trailing "/*" form of every sequence of length < n.
func c03Patterns(n int, f func(p string)) {
	seen := map[string]bool{}
	emit := func(p string) {
		if !seen[p] {
			seen[p] = true
			f(p)
		}
	}
	for l := 1; l <= n; l++ {
		enum.Sequences(len(c03Tokens), l, func(s []int) bool {
			var sb strings.Builder
			for i, t := range s {
				if t == 0 && i > 0 {
					return true
				}
				sb.WriteString(c03Tokens[t])
			}
			p := sb.String()
			emit(p)
			if l < n {
				emit(p + "/*")
			}
			return true
		})
	}
}

func init() {
	register("C03", "model_checking", func(c *Ctx) {
		alphabet := automata.Alphabet()
		cnt := &c03Counters{}
		if c.Replay != nil {
			p, _ := c.Replay["pattern"].(string)
			mc, _ := c.Replay["match_case"].(bool)
			c03CheckPattern(c, p, mc, cnt, alphabet)
			return
		}
		n := 3
		if c.Thorough() {
			n = 4
		}
		var pats []string
		c03Patterns(n, func(p string) { pats = append(pats, p) })
		var mu sync.Mutex
		done := int64(0)
		exhaustive := true
		c.parallel(len(pats), func(i int) {
			if c.Expired() {
				mu.Lock()
				exhaustive = false
				mu.Unlock()
				return
			}
			// three fresh rules per pattern, so that each mode is also compiled right
			// after the other one (state shared between rules would show)
			for _, mc := range []bool{true, false, true} {
				c03CheckPattern(c, pats[i], mc, cnt, alphabet)
			}
			if d := atomic.AddInt64(&done, 1); d%4001 == 1 {
				c.Run.Sample(map[string]any{"pattern": pats[i], "rule": pats[i] + "$domain=example.org"})
			}
		})
		// collision layer: patterns whose texts (and whose compiled expressions'
		// leading parts) have equal 32-bit hashes, prepared one after the other in
		// this process: a matcher shared between two rules by a hash key would show
		wA, wB := enum.CollidingWindows()
		for _, suf := range []string{"", "^", "*x", "/", "|"} {
			for _, pre := range []string{"", "|", "||"} {
				for _, mc := range []bool{false, true, false} {
					c03CheckPattern(c, pre+wA+suf, mc, cnt, alphabet)
					c03CheckPattern(c, pre+wB+suf, mc, cnt, alphabet)
				}
			}
		}
		// patterns of many pieces (7..12 special characters): the language is still the mask language
		for _, seps := range []string{"*", "^", "*^"} {
			for _, n := range []int{7, 8, 9, 12} {
				var sb strings.Builder
				for k := 0; k < n; k++ {
					sb.WriteString(string(rune('a' + k)))
					sb.WriteByte(seps[k%len(seps)])
				}
				sb.WriteString("hi" + string(seps[0]) + "j")
				for _, pre := range []string{"", "||", "|"} {
					for _, mc := range []bool{false, true} {
						c03CheckPattern(c, pre+sb.String(), mc, cnt, alphabet)
					}
				}
			}
		}
		// corpus layer: the basic patterns of the bundled real-world lists
		stride := 25
		if c.Thorough() {
			stride = 1
		}
		seenPat := map[string]bool{}
		type cp struct {
			p  string
			mc bool
		}
		var corpus []cp
		for _, rel := range []string{"testdata/easylist.txt", "examples/proxy/adguard_russian_filter.txt", "testdata/adguard_sdn_filter.txt"} {
			for _, l := range corpusLines(rel) {
				r, err := rules.NewRule(l, 1)
				nr, ok := r.(*rules.NetworkRule)
				if err != nil || !ok || nr.IsRegexRule() {
					continue
				}
				p := rules.VerifPattern(nr)
				mc := nr.IsOptionEnabled(rules.OptionMatchCase)
				if k := fmt.Sprint(mc, p); !seenPat[k] && len(p) <= 80 {
					seenPat[k] = true
					corpus = append(corpus, cp{p, mc})
				}
			}
		}
		var corpusChecked atomic.Int64
		var picked []cp
		for i := 0; i < len(corpus); i += stride {
			picked = append(picked, corpus[i])
		}
		before := cnt.patterns.Load()
		c.parallel(len(picked), func(i int) {
			if c.Expired() {
				mu.Lock()
				exhaustive = false
				mu.Unlock()
				return
			}
			c03CheckPattern(c, picked[i].p, picked[i].mc, cnt, alphabet)
			corpusChecked.Add(1)
		})
		c.Run.Set("corpus_distinct_patterns", int64(len(corpus)))
		c.Run.Set("corpus_patterns_checked", cnt.patterns.Load()-before)
		c.Run.Set("patterns_enumerated", int64(len(pats)*3))
		c.Run.Set("patterns_checked", cnt.patterns.Load())
		c.Run.Set("patterns_rejected_by_parser", cnt.rejected.Load())
		c.Run.Set("patterns_not_representable", cnt.notRepr.Load())
		c.Run.Set("states", cnt.states.Load())
		c.Run.Set("transitions", cnt.transitions.Load())
		c.Run.Set("traces_validated_against_impl", cnt.witnesses.Load())
		c.Run.Set("evaluations", cnt.patterns.Load())
		c.Run.Set("distinct_nontrivial", cnt.nontrivial.Load())
		c.Run.Set("rule", fmt.Sprintf("every mask pattern of <=%d tokens over %d tokens (plus trailing '/*' forms), with and without $match-case; non-trivial = the compiled language is neither empty nor everything; per pattern every reachable state of (compiled DFA x reference lower x reference upper) over 94 graphic ASCII characters", n, len(c03Tokens)))
		c.Run.Set("token_bound", int64(n))
		c.Run.Set("exhaustive", exhaustive)
		c.Run.Assumption("alphabet is graphic ASCII 0x21..0x7E; the space is excluded (documentation and implementation differ on it, URLs carry no raw spaces)")
		c.Run.Assumption("for '||' under $match-case the reference is a sandwich: lower-case scheme/sub-domain characters required, upper-case tolerated")
		c.Run.Assumption("regexp/syntax Parse+Simplify+Compile is what regexp.Compile runs; every product-state witness is replayed on the real *regexp.Regexp and on NetworkRule.Match")
	})
}

func isASCII(s string) bool {
	for i := 0; i < len(s); i++ {
		if s[i] >= 0x80 {
			return false
		}
	}
	return true
}
