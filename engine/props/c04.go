package props

import (
	"fmt"
	"net/netip"
	"sort"
	"strings"
	"sync"

	"github.com/AdguardTeam/urlfilter/rules"
	"golang.org/x/net/publicsuffix"

	"verif/automata"
	"verif/enum"
	"verif/ev"
	"verif/ref"
)

// C04 — a rule matches iff its pattern and every modifier are satisfied.
//
// Rules are generated structurally and rendered to text; the reference works
// on the structure, the implementation on the text.

type nv struct {
	v   string
	neg bool
}

type c04Rule struct {
	exc          bool
	pattern      string
	party        int // 0 absent, 1 third-party, 2 ~third-party, 3 first-party, 4 ~first-party
	party2       int // a second party modifier (both must hold)
	types        []nv
	domains      []nv
	denyallow    []string
	dnstypes     []nv
	ctags        []nv
	clients      []nv // v is the raw client identifier
	matchCase    bool
	notMatchCase bool   // "~match-case" written out: same as leaving it out
	docOnly      string // a document-only exception modifier ("" or e.g. "elemhide")
}

// sruleToC04 reads the modifiers of a structurally given alphabet rule (the
// small option syntax the alphabets of the other checks use) into the
// structure the reference matcher works on.  Modifiers that do not take part in
// matching (important, badfilter, dnsrewrite, popup, stealth, ...) are skipped.
// ok is false if a modifier is outside what the reference models.
func sruleToC04(s srule) (r c04Rule, ok bool) {
	r.exc, r.pattern = s.exc, s.pattern
	split := func(v string) (out []nv) {
		for _, x := range strings.Split(v, "|") {
			if strings.HasPrefix(x, "~") {
				out = append(out, nv{x[1:], true})
			} else {
				out = append(out, nv{x, false})
			}
		}
		return out
	}
	for _, o := range s.opts {
		name, val, _ := strings.Cut(o, "=")
		switch name {
		case "important", "badfilter", "dnsrewrite", "stealth":
		case "third-party":
			r.party = 1
		case "~third-party":
			r.party = 2
		case "first-party":
			r.party = 3
		case "~first-party":
			r.party = 4
		case "match-case":
			r.matchCase = true
		case "~match-case":
			r.notMatchCase = true
		case "domain":
			r.domains = split(val)
		case "denyallow":
			r.denyallow = strings.Split(val, "|")
		case "dnstype":
			r.dnstypes = split(val)
		case "ctag":
			r.ctags = split(val)
		case "client":
			if strings.ContainsAny(val, `'"\\`) {
				return r, false
			}
			r.clients = split(val)
		case "document", "elemhide", "generichide", "genericblock", "jsinject", "urlblock", "content", "extension", "popup":
			r.docOnly = name // these apply to documents only
		default:
			neg := strings.HasPrefix(name, "~")
			if _, isType := c04TypeBits[strings.TrimPrefix(name, "~")]; !isType || val != "" || name == "document" {
				return r, false
			}
			r.types = append(r.types, nv{strings.TrimPrefix(name, "~"), neg})
		}
	}
	return r, true
}

func encClient(v string) string {
	if _, err := netip.ParseAddr(v); err == nil {
		return v
	}
	if _, err := netip.ParsePrefix(v); err == nil {
		return v
	}
	plain := true
	for _, ch := range v {
		if !(ch >= 'a' && ch <= 'z' || ch >= 'A' && ch <= 'Z' || ch >= '0' && ch <= '9') {
			plain = false
		}
	}
	if plain {
		return v
	}
	r := strings.NewReplacer(`'`, `\'`, `,`, `\,`, `|`, `\|`)
	return "'" + r.Replace(v) + "'"
}

func joinNV(vs []nv, enc func(string) string) string {
	var parts []string
	for _, x := range vs {
		s := x.v
		if enc != nil {
			s = enc(s)
		}
		if x.neg {
			s = "~" + s
		}
		parts = append(parts, s)
	}
	return strings.Join(parts, "|")
}

func (r c04Rule) text() string {
	var o []string
	switch r.party {
	case 1:
		o = append(o, "third-party")
	case 2:
		o = append(o, "~third-party")
	case 3:
		o = append(o, "first-party")
	case 4:
		o = append(o, "~first-party")
	}
	if r.party2 != 0 {
		o = append(o, []string{"", "third-party", "~third-party", "first-party", "~first-party"}[r.party2])
	}
	for _, t := range r.types {
		if t.neg {
			o = append(o, "~"+t.v)
		} else {
			o = append(o, t.v)
		}
	}
	if len(r.domains) > 0 {
		o = append(o, "domain="+joinNV(r.domains, nil))
	}
	if len(r.denyallow) > 0 {
		o = append(o, "denyallow="+strings.Join(r.denyallow, "|"))
	}
	if len(r.dnstypes) > 0 {
		o = append(o, "dnstype="+joinNV(r.dnstypes, nil))
	}
	if len(r.ctags) > 0 {
		o = append(o, "ctag="+joinNV(r.ctags, nil))
	}
	if len(r.clients) > 0 {
		o = append(o, "client="+joinNV(r.clients, encClient))
	}
	if r.matchCase {
		o = append(o, "match-case")
	}
	if r.notMatchCase {
		o = append(o, "~match-case")
	}
	if r.docOnly != "" {
		o = append(o, r.docOnly)
	}
	t := r.pattern
	if r.exc {
		t = "@@" + t
	}
	if len(o) > 0 {
		t += "$" + strings.Join(o, ",")
	}
	return t
}

var c04TypeBits = map[string]rules.RequestType{"script": rules.TypeScript, "image": rules.TypeImage, "stylesheet": rules.TypeStylesheet, "document": rules.TypeDocument, "subdocument": rules.TypeSubdocument,
	"object": rules.TypeObject, "xmlhttprequest": rules.TypeXmlhttprequest, "media": rules.TypeMedia, "font": rules.TypeFont, "websocket": rules.TypeWebsocket, "ping": rules.TypePing, "other": rules.TypeOther}

// c04TypeNames: the content-type modifiers in the order of their bits.
var c04TypeNames = []string{"script", "stylesheet", "subdocument", "object", "image", "xmlhttprequest", "media", "font", "websocket", "ping", "other"}

var c04DNSTypes = map[string]uint16{"A": 1, "AAAA": 28, "CNAME": 5, "TXT": 16, "HTTPS": 65, "CAA": 257, "ANY": 255,
	"MX": 15, "NS": 2, "SOA": 6, "SRV": 33, "PTR": 12, "DS": 43, "NAPTR": 35, "LOC": 29, "SPF": 99,
	"DNSKEY": 48, "TLSA": 52, "SSHFP": 44, "RRSIG": 46, "NSEC": 47, "CERT": 37, "DNAME": 39, "URI": 256, "SVCB": 64}

// refDomainOrSub is "host is name or a sub-domain of name"; "name.*" stands
// for name + the ICANN public suffix of host, on a label boundary.
func refDomainOrSub(host, name string) bool {
	if host == "" {
		return false
	}
	if strings.HasSuffix(name, ".*") {
		base := strings.TrimSuffix(name, "*") // "google."
		suffix, icann := publicsuffix.PublicSuffix(host)
		if !icann || suffix == "" {
			return false
		}
		full := base + suffix
		return host == full || strings.HasSuffix(host, "."+full)
	}
	return host == name || strings.HasSuffix(host, "."+name)
}

func refAny(host string, vs []nv, neg bool) bool {
	for _, x := range vs {
		if x.neg == neg && refDomainOrSub(host, x.v) {
			return true
		}
	}
	return false
}

func hasNeg(vs []nv, neg bool) bool {
	for _, x := range vs {
		if x.neg == neg {
			return true
		}
	}
	return false
}

var (
	c04PatMu    sync.RWMutex
	c04PatCache = map[string]map[string]bool{}
)

// refPatternMatch runs the reference mask automaton of the pattern on the
// target (memoised per pattern and target).
func refPatternMatch(pattern string, matchCase bool, target string) bool {
	key := pattern
	if matchCase {
		key = "mc|" + pattern
	}
	c04PatMu.RLock()
	if m := c04PatCache[key]; m != nil {
		if v, ok := m[target]; ok {
			c04PatMu.RUnlock()
			return v
		}
	}
	c04PatMu.RUnlock()
	c04PatMu.Lock()
	defer c04PatMu.Unlock()
	m := c04PatCache[key]
	if m == nil {
		m = map[string]bool{}
		c04PatCache[key] = m
	}
	d := automata.Determinise(ref.MaskNFA(ref.EffectivePattern(pattern), matchCase, true))
	s := d.Start()
	for _, ch := range target {
		s = d.Step(s, ch)
	}
	ok := d.AcceptEnd(s)
	m[target] = ok
	return ok
}

func refClientContains(vs []nv, neg bool, name string, ip netip.Addr) bool {
	for _, x := range vs {
		if x.neg != neg {
			continue
		}
		if a, err := netip.ParseAddr(x.v); err == nil {
			if ip.IsValid() && a == ip {
				return true
			}
			continue
		}
		if p, err := netip.ParsePrefix(x.v); err == nil {
			if ip.IsValid() && p.Masked().Contains(ip) {
				return true
			}
			continue
		}
		if name != "" && x.v == name {
			return true
		}
	}
	return false
}

// c04Reference decides whether the rule matches the request.
func c04Reference(r c04Rule, q *rules.Request) bool {
	// pattern on the proper target
	target := q.URL
	if q.IsHostnameRequest {
		p := r.pattern
		if !(strings.HasPrefix(p, "||") || strings.HasPrefix(p, "http://") || strings.HasPrefix(p, "https://") || strings.HasPrefix(p, "://")) {
			target = q.Hostname
			// "/hostname." made of hostname characters only is a URL pattern
			if len(p) > 3 && p[0] == '/' && p[len(p)-1] == '.' {
				plain := true
				for i := 1; i < len(p)-1; i++ {
					ch := p[i]
					if !(ch >= 'a' && ch <= 'z' || ch >= 'A' && ch <= 'Z' || ch >= '0' && ch <= '9' || ch == '.' || ch == '-') {
						plain = false
					}
				}
				if plain {
					target = q.URL
				}
			}
		}
	}
	if !refPatternMatch(r.pattern, r.matchCase, target) {
		return false
	}
	for _, party := range []int{r.party, r.party2} {
		switch party {
		case 1, 4:
			if !q.ThirdParty {
				return false
			}
		case 2, 3:
			if q.ThirdParty {
				return false
			}
		}
	}
	// content types
	if r.docOnly != "" {
		if q.RequestType != rules.TypeDocument {
			return false
		}
		for _, t := range r.types {
			if t.neg && c04TypeBits[t.v] == q.RequestType {
				return false
			}
		}
	} else {
		perm := false
		inPerm := false
		for _, t := range r.types {
			if !t.neg {
				perm = true
				if c04TypeBits[t.v] == q.RequestType {
					inPerm = true
				}
			} else if c04TypeBits[t.v] == q.RequestType {
				return false
			}
		}
		if perm && !inPerm {
			return false
		}
	}
	// $domain on the source host
	if len(r.domains) > 0 {
		if refAny(q.SourceHostname, r.domains, true) {
			return false
		}
		if hasNeg(r.domains, false) && !refAny(q.SourceHostname, r.domains, false) {
			return false
		}
	}
	// $denyallow on the request host
	if len(r.denyallow) > 0 {
		if q.IsHostnameRequest {
			if _, err := netip.ParseAddr(q.Hostname); err == nil {
				return false
			}
		}
		for _, d := range r.denyallow {
			if refDomainOrSub(q.Hostname, d) {
				return false
			}
		}
	}
	// $dnstype
	if len(r.dnstypes) > 0 {
		in := func(neg bool) bool {
			for _, t := range r.dnstypes {
				if t.neg == neg && c04DNSTypes[strings.ToUpper(t.v)] == q.DNSType {
					return true
				}
			}
			return false
		}
		if in(true) {
			return false
		}
		if hasNeg(r.dnstypes, false) && !in(false) {
			return false
		}
	}
	// $ctag
	if len(r.ctags) > 0 {
		has := func(neg bool) bool {
			for _, t := range r.ctags {
				if t.neg != neg {
					continue
				}
				for _, ct := range q.SortedClientTags {
					if ct == t.v {
						return true
					}
				}
			}
			return false
		}
		if has(true) {
			return false
		}
		if hasNeg(r.ctags, false) && !has(false) {
			return false
		}
	}
	// $client
	if len(r.clients) > 0 {
		if refClientContains(r.clients, true, q.ClientName, q.ClientIP) {
			return false
		}
		if hasNeg(r.clients, false) && !refClientContains(r.clients, false, q.ClientName, q.ClientIP) {
			return false
		}
	}
	return true
}

type c04Req struct {
	q    *rules.Request
	desc string
	// ref, if set, is the request as a fresh constructor call builds it; q is
	// then the same request reached by another route (a re-used object), and
	// the reference is computed on ref
	ref *rules.Request
}

func c04Requests() (qs []c04Req) {
	urls := []string{"http://example.org/ads", "https://sub.example.org/x?ads=1", "http://x.com/ads", "http://ads.example.com/", "http://EXAMPLE.org/ADS", "http://1.2.3.4/ads",
		"http://user:pw@example.org/ads"} // the pattern is applied to the URL as it is, user information included
	srcs := []string{"", "http://example.org/", "http://sub.example.org/p", "http://notexample.org/", "http://example.com/", "http://google.com/", "https://www.google.co.uk/", "http://x.google.agoogle.com/", "http://agoogle.com/", "http://google.unknowntldx/", "http://a.sub.example.org/", "http://co.uk/", "http://example.local/", "http://www.example.local/", "http://shop.example.com/", "http://a.shop.example.com/"}
	types := []rules.RequestType{rules.TypeScript, rules.TypeImage, rules.TypeDocument, rules.TypeSubdocument}
	for _, u := range urls {
		for _, s := range srcs {
			for _, t := range types {
				qs = append(qs, c04Req{q: rules.NewRequest(u, s, t), desc: fmt.Sprintf("url=%s src=%s type=%d", u, s, t)})
			}
		}
	}
	names := []string{"", "Mom", "Frank's laptop", "a,b", "x|y", "Dad", " tv", "tv", "Fr\u00e9d\u00e9ric", "kids/tablet", "~guest", "10.0.0.0/40"}
	ips := []string{"", "127.0.0.1", "192.168.0.7", "fe80::1", "10.0.0.1", "fd00::17", "::ffff:192.168.0.7", "::ffff:10.0.0.1",
		"10.2.3.4", "192.168.5.9"} // inside the wider of two nested values, outside the narrower
	tagsets := [][]string{nil, {"pc"}, {"phone"}, {"pc", "phone"}, {"printer", "tv"},
		{"a1", "a2", "a3", "a4", "a5", "a6", "a7", "pc", "phone", "tv"}} // more than eight, sorted, without "printer"
	for _, h := range []string{"example.org", "ads.sub.example.org", "1.2.3.4"} {
		for _, dt := range []uint16{1, 28, 5, 65, 257} {
			for ni, n := range names {
				for ii, ip := range ips {
					for ti, ts := range tagsets {
						// every tag set with the first two names and addresses, one
						// (rotating) tag set with the others
						if (ni > 1 || ii > 1) && ti != 0 && ti != 1+(ni+ii)%(len(tagsets)-1) {
							continue
						}
						q := rules.NewRequestForHostname(h)
						q.DNSType = dt
						q.ClientName = n
						if ip != "" {
							q.ClientIP = netip.MustParseAddr(ip)
						}
						q.SortedClientTags = ts
						qs = append(qs, c04Req{q: q, desc: fmt.Sprintf("hostname=%s dnstype=%d client=%q ip=%s tags=%v", h, dt, n, ip, ts)})
					}
				}
			}
		}
	}
	// request objects that were used before (a pool hands them out): filled for a host name after a URL of
	// the same host, of another host, and after another host name; the reference is the fresh hostname request
	for _, h := range []string{"example.org", "ads.sub.example.org"} {
		for _, before := range []string{"https://" + h + "/ads/banner.js?x=1", "http://other.example.net/p/ads", ""} {
			var q *rules.Request
			if before != "" {
				q = rules.NewRequest(before, "http://example.com/", rules.TypeScript)
			} else {
				q = rules.NewRequestForHostname("sub.example.org")
			}
			rules.FillRequestForHostname(q, h)
			ref := rules.NewRequestForHostname(h)
			// what FillRequestForHostname documents as left to the caller
			ref.SourceURL, ref.SourceHostname, ref.SourceDomain = q.SourceURL, q.SourceHostname, q.SourceDomain
			qs = append(qs, c04Req{q: q, desc: fmt.Sprintf("hostname=%s on a request object used for %q before", h, before), ref: ref})
		}
	}
	// host names made of hexadecimal digits and dots look like IP addresses to a cheap test
	// ... and names that a "/label." pattern is written for, and bracketed or half-bracketed address literals
	for _, h := range []string{"cafe.de", "dead.beef", "bad.cc", "fe80::1", "::1", "ads1.example.org", "ad-server.x.com", "www.a.example.org", "1.example.org", "[::1]", "[::1", "[dead.beef", "::1]", "1.2.3.4", "a_b.example.org"} {
		for _, dt := range []uint16{1, 28} {
			q := rules.NewRequestForHostname(h)
			q.DNSType = dt
			qs = append(qs, c04Req{q: q, desc: fmt.Sprintf("hostname=%s dnstype=%d", h, dt)})
		}
	}
	return qs
}

func c04CheckRule(c *Ctx, r c04Rule, qs []c04Req, sigKey string) (evals int64, parsedOK bool) {
	text := r.text()
	nr, err := rules.NewNetworkRule(text, 1)
	if err != nil {
		return 0, false
	}
	// forward, then backward on the same rule object: the answer must not depend
	// on which request the rule saw first
	order := make([]c04Req, 0, 2*len(qs))
	if len(text)%2 == 0 {
		order = append(order, qs...)
	}
	for i := len(qs) - 1; i >= 0; i-- {
		order = append(order, qs[i])
	}
	if len(text)%2 == 1 {
		order = append(order, qs...)
	}
	if len(text)%3 != 0 {
		order = order[:len(qs)] // two thirds of the rules see one order only (which one depends on the rule)
	}
	// the accessors say what is written: text, permitted domains (as a set), generic iff none
	{
		var wantDom []string
		for _, d := range r.domains {
			if !d.neg {
				wantDom = append(wantDom, strings.ToLower(d.v))
			}
		}
		gotDom := append([]string{}, nr.GetPermittedDomains()...)
		for i := range gotDom {
			gotDom[i] = strings.ToLower(gotDom[i])
		}
		if nr.Text() != text || nr.String() != text || nr.GetFilterListID() != 1 || !eqStrings(sortedSet(gotDom), sortedSet(wantDom)) || nr.IsGeneric() != (len(wantDom) == 0) || nr.Whitelist != r.exc {
			c.Run.Violate(ev.Violation{Pred: "accessors-say-what-is-written", Sig: map[string]any{"rule": text},
				What:   fmt.Sprintf("rule %q: Text()=%q String()=%q GetFilterListID()=%d GetPermittedDomains()=%v IsGeneric()=%v Whitelist=%v; written: permitted domains %v, exception %v", text, nr.Text(), nr.String(), nr.GetFilterListID(), nr.GetPermittedDomains(), nr.IsGeneric(), nr.Whitelist, wantDom, r.exc),
				Replay: map[string]any{"rule": text, "slot": sigKey}})
			return evals, true
		}
	}
	for _, q := range order {
		evals++
		var got bool
		if p := protect(func() { got = nr.Match(q.q) }); p != nil {
			c.Run.Violate(ev.Violation{Pred: "no-crash", Sig: map[string]any{"rule": text}, What: fmt.Sprintf("%q.Match(%s) panics: %v", text, q.desc, p), Replay: map[string]any{"rule": text}})
			return evals, true
		}
		refReq := q.q
		if q.ref != nil {
			refReq = q.ref
		}
		want := c04Reference(r, refReq)
		if got != want {
			c.Run.Violate(ev.Violation{Pred: "match-equals-reference", Sig: map[string]any{"rule": text, "request": q.desc},
				What:   fmt.Sprintf("rule %q on request [%s]: Match = %v, reference = %v", text, q.desc, got, want),
				Replay: map[string]any{"rule": text, "request": q.desc, "slot": sigKey}})
			return evals, true
		}
	}
	return evals, true
}

type c04Slot struct {
	name  string
	alpha []nv
	apply func(r *c04Rule, vs []nv)
}

func c04Slots() []c04Slot {
	return []c04Slot{
		{"domain", []nv{{"example.org", false}, {"sub.example.org", true}, {"example.com", false}, {"google.*", false}, {"www.google.*", true}, {"co.uk", false}, {"example.*", false}, {"example.local", false}, {"shop.example.com", false}, {"example.com", true}},
			func(r *c04Rule, vs []nv) { r.domains = vs }},
		{"client", []nv{{"127.0.0.1", false}, {"192.168.0.0/24", true}, {"fe80::/10", false}, {"Frank's laptop", false}, {"a,b", false}, {"Mom", false}, {"Dad", true}, {"x|y", true}, {"192.168.0.0/16", false}, {"10.0.0.1", false}, {"Mom", true}, {"fd00::/8", false}, {"::ffff:192.168.0.7", false}, {"::ffff:10.0.0.0/104", true}, {" tv", false}, {"tv", true}, {"Fr\u00e9d\u00e9ric", false}, {"kids/tablet", false}, {"~guest", false}, {"10.0.0.0/40", true},
			{"10.0.0.0/8", false}, {"192.168.0.0/16", true}}, // subnets that contain another value of the same sign
			func(r *c04Rule, vs []nv) { r.clients = vs }},
		{"ctag", []nv{{"pc", false}, {"phone", true}, {"printer", false}, {"tv", true}, {"pc", true}, {"phone", false}, {"printer", true}, {"tv", false}},
			func(r *c04Rule, vs []nv) { r.ctags = vs }},
		{"dnstype", []nv{{"A", false}, {"AAAA", true}, {"cname", false}, {"TXT", true}, {"HTTPS", false}, {"CAA", true}, {"A", true}},
			func(r *c04Rule, vs []nv) { r.dnstypes = vs }},
		{"types", []nv{{"script", false}, {"image", true}, {"stylesheet", false}, {"script", true}, {"subdocument", false}},
			func(r *c04Rule, vs []nv) { r.types = vs }},
		{"denyallow", []nv{{"example.org", false}, {"sub.example.org", false}, {"x.com", false}, {"1.2.3.4.com", false}},
			func(r *c04Rule, vs []nv) {
				r.denyallow = nil
				for _, v := range vs {
					r.denyallow = append(r.denyallow, v.v)
				}
			}},
	}
}

func init() {
	register("C04", "exploration", func(c *Ctx) {
		qs := c04Requests()
		if c.Replay != nil {
			text, _ := c.Replay["rule"].(string)
			fmt.Println("  replaying by regenerating the enumeration and checking the rule with text", text)
			c.Replay = nil
			c04Run(c, qs, text)
			return
		}
		c04Run(c, qs, "")
	})
}

func c04Run(c *Ctx, qs []c04Req, only string) {
	var mu sync.Mutex
	var evals, nrules, rejected int64
	exhaustive := true
	type job struct {
		r   c04Rule
		key string
	}
	var jobs []job
	// layer 1: per modifier, every ordered value list
	maxVals := 3
	if c.Thorough() {
		maxVals = 4
	}
	for _, slot := range c04Slots() {
		for l := 1; l <= maxVals; l++ {
			// the longest lists over the first ten values of the slot's alphabet
			// (the later ones are variations already covered pairwise)
			na := len(slot.alpha)
			if l == maxVals && na > 10 {
				na = 10
			}
			enum.Sequences(na, l, func(s []int) bool {
				vs := make([]nv, l)
				for i, k := range s {
					vs[i] = slot.alpha[k]
				}
				for _, pat := range []string{"||example.org^", "ads", "a"} {
					r := c04Rule{pattern: pat}
					slot.apply(&r, vs)
					jobs = append(jobs, job{r, slot.name})
				}
				return true
			})
		}
	}
	// layer 2: absent / representative 1 / representative 2 across all modifiers
	reps := [][2]func(r *c04Rule){
		{func(r *c04Rule) { r.party = 1 }, func(r *c04Rule) { r.party = 2 }},
		{func(r *c04Rule) { r.types = []nv{{"script", false}} }, func(r *c04Rule) { r.types = []nv{{"image", true}, {"subdocument", false}, {"script", false}} }},
		{func(r *c04Rule) { r.domains = []nv{{"example.org", false}, {"sub.example.org", true}} }, func(r *c04Rule) { r.domains = []nv{{"google.*", false}} }},
		{func(r *c04Rule) { r.denyallow = []string{"sub.example.org"} }, func(r *c04Rule) { r.denyallow = []string{"x.com", "example.org"} }},
		{func(r *c04Rule) { r.dnstypes = []nv{{"A", false}} }, func(r *c04Rule) { r.dnstypes = []nv{{"AAAA", true}} }},
		{func(r *c04Rule) { r.ctags = []nv{{"pc", false}} }, func(r *c04Rule) { r.ctags = []nv{{"phone", true}, {"printer", false}} }},
		{func(r *c04Rule) { r.clients = []nv{{"Mom", false}, {"127.0.0.1", false}} }, func(r *c04Rule) { r.clients = []nv{{"192.168.0.0/24", true}} }},
		{func(r *c04Rule) { r.matchCase = true }, func(r *c04Rule) { r.exc = true }},
		{func(r *c04Rule) { r.party = 3 }, func(r *c04Rule) { r.exc = true; r.docOnly = "elemhide" }},
	}
	enum.Sequences(3, len(reps), func(s []int) bool {
		if s[0] != 0 && s[8] == 1 {
			return true // party set twice
		}
		prodPats := []string{"||example.org^", "ads", ".org/*"}
		if !c.Thorough() {
			prodPats = prodPats[:2] // (".org/*" on its own is in the pattern-target layer)
		}
		for _, pat := range prodPats {
			r := c04Rule{pattern: pat}
			for i, v := range s {
				if v > 0 {
					reps[i][v-1](&r)
				}
			}
			jobs = append(jobs, job{r, "product"})
		}
		return true
	})
	// size layer: value lists of 9, 17 and 33 entries (fillers that match no request
	// of the alphabet, with one or two entries that do at the first, a middle and
	// the last position, in both polarities): a matcher that changes its algorithm
	// above some length is still asked about every position
	fillers := map[string]func(i int) nv{
		"domain": func(i int) nv { return nv{fmt.Sprintf("f%02d.filler.test", i), false} },
		"client": func(i int) nv { return nv{fmt.Sprintf("10.9.%d.0/24", i), false} },
		"ctag":   func(i int) nv { return nv{fmt.Sprintf("tag%02d", i), false} },
		"dnstype": func(i int) nv {
			return nv{[]string{"MX", "NS", "SOA", "SRV", "PTR", "DS", "NAPTR", "LOC", "SPF", "DNSKEY", "TLSA", "SSHFP", "RRSIG", "NSEC", "CERT", "DNAME", "URI", "SVCB"}[i%18], false}
		},
		"denyallow": func(i int) nv { return nv{fmt.Sprintf("f%02d.filler.test", i), false} },
	}
	for _, slot := range c04Slots() {
		fill, ok := fillers[slot.name]
		if !ok {
			continue
		}
		for _, n := range []int{9, 17, 33} {
			for _, pos := range []int{0, n / 2, n - 1} {
				for vi, v := range slot.alpha[:4] {
					for _, neg := range []bool{false, true} {
						vs := make([]nv, n)
						for i := range vs {
							vs[i] = fill(i)
							vs[i].neg = neg
						}
						if slot.name == "dnstype" && len(vs) > 18 {
							vs = vs[:18] // only so many record types
							if pos >= len(vs)-1 {
								pos = len(vs) - 2
							}
						}
						vs[pos] = v
						// a second real value of the other polarity right next to it
						if other := slot.alpha[(vi+1)%4]; pos+1 < len(vs) {
							vs[pos+1] = other
						}
						r := c04Rule{pattern: "ads"}
						slot.apply(&r, vs)
						jobs = append(jobs, job{r, "size"})
						if slot.name == "domain" && vi == 0 {
							// a wildcard-TLD value and the same name under a suffix that is not a public one
							vs2 := append([]nv{}, vs...)
							vs2[pos] = nv{"example.*", neg}
							if pos+1 < len(vs2) {
								vs2[pos+1] = nv{"example.local", neg}
							}
							r2 := c04Rule{pattern: "ads", domains: vs2}
							jobs = append(jobs, job{r2, "size"})
						}
					}
				}
			}
		}
	}
	// pattern-target layer: which string the pattern is applied to (URL or bare
	// hostname) for patterns that spell out, embed or omit the scheme
	for _, pat := range []string{"|http://example.org^", "*://example.org^", "p://example.org", "http://example.org^", "https://example.org^", "://example.org^", "example.org^",
		"/example.org.", "/exa_mple.org.", "/ads1.", "/ad-server.", "/www.a.", "/1.", "/a_b.", ".org/*", "||example.org^", "|example.org|", "example.org|", "ws://example.org", "|ads.sub", "EXAMPLE.org^"} {
		jobs = append(jobs, job{c04Rule{pattern: pat, denyallow: []string{"x.com"}}, "pattern-target"})
		jobs = append(jobs, job{c04Rule{pattern: pat, matchCase: true, dnstypes: []nv{{"TXT", true}}}, "pattern-target"})
		jobs = append(jobs, job{c04Rule{pattern: pat, notMatchCase: true}, "pattern-target"})
		jobs = append(jobs, job{c04Rule{pattern: pat, notMatchCase: true, party: 2, types: []nv{{"image", true}}}, "pattern-target"})
	}
	// content-type layer: every content-type modifier alone, negated, and every
	// ordered pair in the three sign combinations, against a request of every type
	var typeQs []c04Req
	for _, t := range []rules.RequestType{rules.TypeDocument, rules.TypeSubdocument, rules.TypeScript, rules.TypeStylesheet, rules.TypeObject, rules.TypeImage, rules.TypeXmlhttprequest,
		rules.TypeMedia, rules.TypeFont, rules.TypeWebsocket, rules.TypePing, rules.TypeOther} {
		typeQs = append(typeQs, c04Req{q: rules.NewRequest("http://example.org/ads", "http://example.com/", t), desc: fmt.Sprintf("url=http://example.org/ads src=http://example.com/ type=%d", t)})
	}
	for _, a := range c04TypeNames {
		jobs = append(jobs, job{c04Rule{pattern: "||example.org^", types: []nv{{a, false}}}, "content-types"}, job{c04Rule{pattern: "||example.org^", types: []nv{{a, true}}}, "content-types"})
		for _, b := range c04TypeNames {
			if a != b {
				jobs = append(jobs, job{c04Rule{pattern: "ads", types: []nv{{a, false}, {b, false}}}, "content-types"}, job{c04Rule{pattern: "ads", types: []nv{{a, false}, {b, true}}}, "content-types"},
					job{c04Rule{pattern: "ads", types: []nv{{a, true}, {b, true}}}, "content-types"})
			}
		}
	}
	// two party modifiers on one rule (in every spelling and order), and every
	// document-only modifier on blocking and exception rules, against a request
	// of every type from a first- and a third-party referrer
	for _, src := range []string{"http://example.org/", "http://sub.example.org/p"} {
		for _, t := range []rules.RequestType{rules.TypeDocument, rules.TypeSubdocument, rules.TypeScript, rules.TypeImage, rules.TypeOther} {
			typeQs = append(typeQs, c04Req{q: rules.NewRequest("http://example.org/ads", src, t), desc: fmt.Sprintf("url=http://example.org/ads src=%s type=%d", src, t)})
		}
	}
	for p1 := 1; p1 <= 4; p1++ {
		for p2 := 1; p2 <= 4; p2++ {
			jobs = append(jobs, job{c04Rule{pattern: "||example.org^", party: p1, party2: p2}, "content-types"}, job{c04Rule{pattern: "ads", exc: true, party: p1, party2: p2}, "content-types"})
		}
	}
	for _, m := range []string{"elemhide", "generichide", "genericblock", "jsinject", "urlblock", "content", "extension", "popup", "document"} {
		for _, exc := range []bool{false, true} {
			jobs = append(jobs, job{c04Rule{pattern: "||example.org^", exc: exc, docOnly: m}, "content-types"}, job{c04Rule{pattern: "ads", exc: exc, docOnly: m, party: 1}, "content-types"})
		}
	}
	perSlot := map[string]int64{}
	// colliding values: two host names with the same 32-bit hash as $domain and $denyallow values of different
	// rules, parsed one after the other in this process (whatever the first rule left behind, the second is its own)
	if only == "" {
		hA, hB := c01GetAlphabet().hA, c01GetAlphabet().hB
		var cq []c04Req
		for _, src := range []string{"http://" + hA + "/", "http://" + hB + "/", "http://sub." + hB + "/p", "http://other.example.net/"} {
			for _, u := range []string{"http://example.org/ads", "http://" + hA + "/ads", "http://" + hB + "/ads"} {
				cq = append(cq, c04Req{q: rules.NewRequest(u, src, rules.TypeScript), desc: fmt.Sprintf("url=%s src=%s type=script", u, src)})
			}
		}
		for _, pair := range [][2]string{{hA, hB}, {"~" + hA, hB}, {hA + "|x.com", hB + "|x.com"}, {hB, "~" + hB}} {
			for _, v := range pair {
				var dom []nv
				for _, x := range strings.Split(v, "|") {
					dom = append(dom, nv{strings.TrimPrefix(x, "~"), strings.HasPrefix(x, "~")})
				}
				e1, _ := c04CheckRule(c, c04Rule{pattern: "/ads", domains: dom}, cq, "colliding-values")
				evals += e1
				if !strings.Contains(v, "~") && !strings.Contains(v, "|") {
					e2, _ := c04CheckRule(c, c04Rule{pattern: "/ads", domains: []nv{{"example.net", false}, {hA, false}, {hB, false}}, denyallow: []string{v}}, cq, "colliding-values")
					evals += e2
				}
			}
		}
	}
	c.parallel(len(jobs), func(i int) {
		if only != "" && jobs[i].r.text() != only {
			return
		}
		if c.Expired() {
			mu.Lock()
			exhaustive = false
			mu.Unlock()
			return
		}
		jq := qs
		if jobs[i].key == "content-types" {
			jq = typeQs
		}
		e, ok := c04CheckRule(c, jobs[i].r, jq, jobs[i].key)
		mu.Lock()
		evals += e
		if ok {
			nrules++
			perSlot[jobs[i].key]++
		} else {
			rejected++
		}
		mu.Unlock()
		if i%20011 == 0 {
			c.Run.Sample(map[string]any{"rule": jobs[i].r.text(), "layer": jobs[i].key})
		}
	})
	// long URLs in which the rule's shortcut occurs more than once and only a later
	// occurrence is where the pattern matches (and URLs around the 4 KiB cap)
	type longCase struct {
		pattern   string
		matchCase bool
		decoy     string // contains the shortcut, does not match
		hit       string // matches
	}
	for _, lc := range []longCase{
		{"^banner.gif", false, "/topbanner.gif?", "&f=/banner.gif"},
		{"/ad^unit", false, "/adxunit/", "/ad/unit"},
		{"/Ads/show", true, "/ads/show?", "/Ads/show"},
		{"/ads/show", false, "/ads/sho?", "/ADS/SHOW"},
		{"banner*.js|", false, "/banner.jsx?", "/banner-1.js"},
	} {
		for _, fill := range []int{0, 100, 240, 300, 1000, 3990, 4200} {
			for _, withHit := range []bool{true, false} {
				u := "http://h.test" + lc.decoy + strings.Repeat("x", fill)
				if withHit {
					u += lc.hit
				}
				r := c04Rule{pattern: lc.pattern, matchCase: lc.matchCase}
				nr, err := rules.NewNetworkRule(r.text(), 1)
				if err != nil {
					panic(AlphabetRejected{Text: r.text(), Err: err})
				}
				q := rules.NewRequest(u, "", rules.TypeScript)
				evals++
				// the pattern is applied to the URL as the request keeps it (capped at 4 KiB)
				if got, want := nr.Match(q), c04Reference(r, q); got != want {
					c.Run.Violate(ev.Violation{Pred: "match-equals-reference", Sig: map[string]any{"rule": r.text(), "url_length": len(u), "with_hit": withHit},
						What:   fmt.Sprintf("rule %q on a URL of %d bytes (%q ... %q): Match = %v, reference = %v", r.text(), len(u), clip(u), u[len(u)-20:], got, want),
						Replay: map[string]any{"rule": r.text()}})
				}
			}
		}
	}
	keys := make([]string, 0, len(perSlot))
	for k := range perSlot {
		keys = append(keys, k)
	}
	sort.Strings(keys)
	c.Run.Set("rules_per_layer", perSlot)
	c.Run.Set("rules_checked", nrules)
	c.Run.Set("rules_rejected_by_parser", rejected)
	c.Run.Set("requests", int64(len(qs)))
	c.Run.Set("evaluations", evals)
	c.Run.Set("distinct_nontrivial", nrules)
	c.Run.Set("rule", fmt.Sprintf("layer 1: for each of 6 value-list modifiers every ordered value list of length 1..%d over its alphabet (all permutations included) on three patterns; layer 2: the full product absent/representative-1/representative-2 over 9 modifier slots on two (thorough: three) patterns; pattern-target layer: 15 patterns that spell out, embed or omit the scheme (plain, $match-case, $~match-case) against URL and hostname requests; each rule against %d requests (6 URLs x 16 sources x 4 types; 3 hostnames x 5 DNS types x 9 client names (quoted, with blanks, non-ASCII) x 10 client addresses incl. IPv4-mapped and addresses between nested subnets x 2..5 tag sets; hexadecimal-looking host names); content-type layer: each of the 11 content-type modifiers alone, negated and in every ordered pair with the three sign combinations against a request of each of the 12 types, likewise every ordered pair of party modifiers and every document-only modifier on blocking and exception rules; distinct_nontrivial = distinct rules accepted by the parser", maxVals, len(qs)))
	c.Run.Set("exhaustive", exhaustive)
	c.Run.Assumption("request fields (hostnames, third-party) are taken from rules.NewRequest; their correctness is property C17")
	c.Run.Assumption("the pattern reference is the C03 mask automaton run on the URL, or on the bare hostname for hostname requests unless the pattern starts with ||, http://, https:// or ://")
}
