package props

import (
	"bufio"
	"fmt"
	"os"
	"path/filepath"
	"strings"
	"sync"
	"sync/atomic"

	"github.com/AdguardTeam/urlfilter"
	"github.com/AdguardTeam/urlfilter/rules"

	"verif/automata"
	"verif/enum"
	"verif/ev"
)

// C05 — the shortcut pre-check never rejects a request the rule accepts.
// Per rule: emptiness of L(compiled) ∩ complement("lower(u) contains
// shortcut"), decided on the product (compiled DFA x KMP automaton).

var c05RegexTokens = []string{"ab", "cd", "e1", "c", `\d`, `\w`, `\s`, `\.`, `\/`, `\x41`, ".", "[ab]", "[^a]", "|", "(", ")", "*", "+", "{0,1}", "{1,2}", `\b`,
	// groups next to an escaped backslash (text-level bracket handling and the parsed tree see them differently)
	`\\(ab)`, `(cd\\)`, "{0,2}",
	// forms the standard compiler rejects (possessive quantifiers): if they are made to compile they must still obey the property
	"++", "*+", "|e1"}

type c05Counters struct {
	rules, withShortcut, nontrivial, states, transitions, witnesses, capHit, invalid atomic.Int64
}

func repoRoot() string {
	if r := os.Getenv("VERIF_REPO"); r != "" {
		return r
	}
	return "/repo"
}

// c05CheckRule decides the property for one rule text.  needsSource tells
// whether the rule carries $domain=example.org.
func c05CheckRule(c *Ctx, text, class string, cnt *c05Counters, alphabet []rune, capStates int) {
	r, err := rules.NewNetworkRule(text, 1)
	if err != nil {
		return
	}
	cnt.rules.Add(1)
	if r.Shortcut == "" {
		return
	}
	sig := map[string]any{"rule": text}
	replay := map[string]any{"rule": text, "class": class}
	impl, re, status, panicked := implAutomaton(r)
	if panicked != nil {
		c.Run.Violate(ev.Violation{Pred: "no-crash", Sig: sig, What: fmt.Sprintf("rule %q: preparing the pattern panics: %v", text, panicked), Replay: replay})
		return
	}
	if status == -1 {
		cnt.invalid.Add(1)
		return
	}
	cnt.withShortcut.Add(1)
	kmp := automata.NewKMP(r.Shortcut)
	found := false
	nonEmpty := false
	st := automata.Product([]automata.Automaton{impl, kmp}, alphabet, capStates, func(s []int, wit func() string) bool {
		ia := impl.AcceptEnd(s[0])
		if ia {
			nonEmpty = true
		}
		// conformance of both models with the real code on this state's witness
		if status == 1 {
			w := wit()
			cnt.witnesses.Add(1)
			if re.MatchString(w) != ia {
				panic(HarnessError(fmt.Sprintf("ProgDFA and regexp disagree on %q for %q", w, re.String())))
			}
			if strings.Contains(strings.ToLower(w), r.Shortcut) != kmp.AcceptEnd(s[1]) {
				panic(HarnessError(fmt.Sprintf("KMP automaton and strings.Contains disagree on %q for %q", w, r.Shortcut)))
			}
		}
		// the rule's match result must be the same as with the shortcut test removed
		// (rules of the bundled lists carry other modifiers: not compared)
		if class != "bundled" && !found {
			w := wit()
			if mres := r.Match(rules.NewRequest(w, c03Source, rules.TypeOther)); mres != ia && (kmp.AcceptEnd(s[1]) || !ia) {
				found = true
				c.Run.Violate(ev.Violation{Pred: "match-equals-pattern-acceptance", Sig: sig,
					What:   fmt.Sprintf("rule %q: its pattern %q accepts=%v the URL %q (which contains the shortcut %q: %v) but Match returns %v", text, reString(re, status), ia, w, r.Shortcut, kmp.AcceptEnd(s[1]), mres),
					Replay: replay})
			}
		}
		if kmp.AcceptEnd(s[1]) {
			return false // shortcut present: nothing below can violate
		}
		if !ia || found {
			return !found
		}
		u := wit()
		cnt.witnesses.Add(1)
		// confirm on the real code before reporting
		realMatch := status == 0 || re.MatchString(u)
		if !realMatch {
			panic(HarnessError(fmt.Sprintf("ProgDFA accepts %q for %q but regexp does not", u, reString(re, status))))
		}
		if strings.Contains(strings.ToLower(u), r.Shortcut) {
			panic(HarnessError(fmt.Sprintf("KMP automaton missed %q in %q", r.Shortcut, u)))
		}
		req := rules.NewRequest(u, c03Source, rules.TypeOther)
		consequence := "so Match rejects it"
		if r.Match(req) {
			// Match has its own idea of where to look for the shortcut; the index keyed by the shortcut
			// looks it up in the lower-cased URL and does not find the rule
			consequence = "Match accepts it, the shortcut index (keyed by windows of the lower-cased URL) cannot find the rule"
		}
		found = true
		c.Run.Violate(ev.Violation{Pred: "accepted-url-contains-shortcut", Sig: sig,
			What:   fmt.Sprintf("rule %q: its pattern %q accepts %q, whose lower-cased form does not contain the shortcut %q: %s", text, reString(re, status), u, r.Shortcut, consequence),
			Replay: replay})
		return false
	})
	cnt.states.Add(int64(st.States))
	cnt.transitions.Add(int64(st.Transitions))
	if st.CapHit {
		cnt.capHit.Add(1)
	}
	if nonEmpty {
		cnt.nontrivial.Add(1)
	}
}

// c05RegexRules enumerates every token sequence of length 1..n, rendered as a
// /regex/ rule.
func c05RegexRules(n int, f func(text string)) {
	seen := map[string]bool{}
	enum.SequencesUpTo(len(c05RegexTokens), n, func(s []int) bool {
		if len(s) == 0 {
			return true
		}
		var sb strings.Builder
		for _, t := range s {
			sb.WriteString(c05RegexTokens[t])
		}
		src := sb.String()
		if seen[src] {
			return true
		}
		seen[src] = true
		// expressions the standard compiler rejects are passed on as well: the
		// library marks them invalid (never matching); if it ever makes one match,
		// the property applies to it
		f("/" + src + "/")
		return true
	})
}

// c05BundledRegexRules returns every regex rule of the bundled lists.
func c05BundledRegexRules() (texts []string, files []string) {
	root := repoRoot()
	cands := []string{"testdata/easylist.txt", "testdata/adguard_sdn_filter.txt", "testdata/test_file_rule_list.txt",
		"examples/proxy/adguard_russian_filter.txt", "examples/proxy/adguard_base_filter.txt"}
	seen := map[string]bool{}
	for _, rel := range cands {
		f, err := os.Open(filepath.Join(root, rel))
		if err != nil {
			continue
		}
		n := 0
		sc := bufio.NewScanner(f)
		sc.Buffer(make([]byte, 1<<20), 1<<22)
		for sc.Scan() {
			line := strings.TrimSpace(sc.Text())
			if line == "" || line[0] == '!' || !strings.Contains(line, "/") {
				continue
			}
			if strings.Contains(line, "##") || strings.Contains(line, "#@#") || strings.Contains(line, "#?#") || strings.Contains(line, "#$#") || strings.Contains(line, "#%#") || strings.Contains(line, "$$") {
				continue
			}
			r, err := rules.NewNetworkRule(line, 1)
			if err != nil || !r.IsRegexRule() || seen[line] {
				continue
			}
			seen[line] = true
			texts = append(texts, line)
			n++
		}
		f.Close()
		files = append(files, fmt.Sprintf("%s:%d", rel, n))
	}
	return texts, files
}

func init() {
	register("C05", "model_checking", func(c *Ctx) {
		alphabet := automata.Alphabet()
		cnt := &c05Counters{}
		if c.Replay != nil {
			if ph, ok := c.Replay["parse_history"].(string); ok {
				c05ParseHistory(c, ph)
				return
			}
			text, _ := c.Replay["rule"].(string)
			c05CheckRule(c, text, "replay", cnt, alphabet, 400000)
			return
		}
		type item struct{ text, class string }
		var items []item
		nMask, nRegex := 3, 3
		if c.Thorough() {
			nMask, nRegex = 4, 5
		}
		c03Patterns(nMask, func(p string) {
			if len(p) > 1 && p[0] == '/' && p[len(p)-1] == '/' {
				return
			}
			items = append(items, item{p + "$domain=example.org", "mask"})
			items = append(items, item{p + "$domain=example.org,match-case", "mask"})
		})
		// alternations with more branches than a machine word has bits: only the first
		// branches share a literal, the last one does not
		for _, n := range []int{64, 65, 66, 130} {
			var bs []string
			for k := 0; k < n; k++ {
				bs = append(bs, fmt.Sprintf("%c%c.banner", 'a'+k%26, 'a'+(k/26)%26))
			}
			bs = append(bs, "%.zzz")
			items = append(items, item{"/" + strings.Join(bs, "|") + "/", "regex-wide-alternation"})
		}
		// patterns of many pieces (7..12 special characters between literals of growing length)
		for _, seps := range []string{"*", "^", "*^", "|*"} {
			for _, n := range []int{7, 8, 9, 12} {
				var sb strings.Builder
				for k := 0; k < n; k++ {
					sb.WriteString(string(rune('a'+k)) + strings.Repeat(string(rune('a'+k)), k%3))
					sb.WriteByte(seps[k%len(seps)])
				}
				sb.WriteString("hi" + string(seps[0]) + "j")
				for _, pre := range []string{"", "||", "|"} {
					items = append(items, item{pre + sb.String() + "$domain=example.org", "mask-many-pieces"})
				}
			}
		}
		// mask patterns over multi-character literals (pieces long enough to become shortcuts)
		maskToks := []string{"||", "|", "*", "^", "ab", "Cd", "z1", "/", "."}
		for l := 1; l <= 4; l++ {
			enum.Sequences(len(maskToks), l, func(s []int) bool {
				var sb strings.Builder
				for i, t := range s {
					if t == 0 && i > 0 {
						return true
					}
					sb.WriteString(maskToks[t])
				}
				p := sb.String()
				if len(p) > 1 && p[0] == '/' && p[len(p)-1] == '/' {
					return true
				}
				items = append(items, item{p + "$domain=example.org", "mask-multichar"})
				items = append(items, item{p + "$domain=example.org,match-case", "mask-multichar"})
				return true
			})
		}
		c05RegexRules(nRegex, func(t string) { items = append(items, item{t, "regex-grammar"}) })
		bundled, files := c05BundledRegexRules()
		for _, t := range bundled {
			items = append(items, item{t, "bundled"})
		}
		exhaustive := true
		var mu sync.Mutex
		perClass := map[string]int64{}
		c.parallel(len(items), func(i int) {
			if c.Expired() {
				mu.Lock()
				exhaustive = false
				mu.Unlock()
				return
			}
			it := items[i]
			capStates := 200000
			c05CheckRule(c, it.text, it.class, cnt, alphabet, capStates)
			mu.Lock()
			perClass[it.class]++
			mu.Unlock()
			if i%5003 == 0 || (it.class == "bundled" && i%17 == 0) {
				c.Run.Sample(map[string]any{"rule": it.text, "class": it.class})
			}
		})
		// index layer: the shortcut is also the key of the shortcut index.  Every ordered
		// list of <=3 rules whose patterns spell out or omit the scheme, through
		// NetworkEngine.MatchAll for URL and hostname requests, against rule.Match.
		idxRules := []string{"http://example.org^", "https://example.org^", "://example.org^", "ws://example.org^", "example.org^", "||example.org^", "|http://example.org/", "http://sub.example.org^", "p://example.org^", "example.org.|", ".org.|", "/sub.", "/a.sub."}
		var idxReqs []*rules.Request
		for _, u := range []string{"http://example.org/", "https://example.org/a", "ws://example.org", "http://sub.example.org/?u=http://example.org/", "http://x.test/?r=https://example.org^", "HTTP://EXAMPLE.ORG/A", "https://Example.Org/", "http://SUB.example.org/?U=HTTP://EXAMPLE.ORG/"} {
			idxReqs = append(idxReqs, rules.NewRequest(u, "", rules.TypeScript))
		}
		for _, h := range []string{"example.org", "sub.example.org", "a.sub.example.org", "example.org."} {
			idxReqs = append(idxReqs, rules.NewRequestForHostname(h))
		}
		var idxEvals atomic.Int64
		// a bucket of eighteen rules that share a leading literal and differ later
		{
			var lines []string
			for k := 1; k <= 18; k++ {
				lines = append(lines, fmt.Sprintf("adserv*q%dq", k))
			}
			ne := urlfilter.NewNetworkEngine(stringStorage(joinLines(lines) + "\n"))
			for k := 1; k <= 18; k++ {
				q := rules.NewRequest(fmt.Sprintf("http://host.test/adserv/x/q%dq.gif", k), "", rules.TypeImage)
				want := []string{fmt.Sprintf("adserv*q%dq", k)}
				if got := sortedSet(netTexts(ne.MatchAll(q))); !eqStrings(got, want) {
					c.Run.Violate(ev.Violation{Pred: "shortcut-index-finds-what-matches", Sig: map[string]any{"bucket": 18, "rule": want[0]},
						What: fmt.Sprintf("engine over 18 rules adserv*q1q..adserv*q18q, request %s: MatchAll returns %v, the rule that matches is %v", q.URL, got, want), Replay: map[string]any{"rule": want[0], "class": "index"}})
					break
				}
			}
		}
		// the page's own rules are looked up under the page's address, whatever the sub-request's address is
		for _, exc := range []string{"@@||page.test^$urlblock", "@@||page.test/app^$document", "@@/page.test\\/(app|p)/$genericblock"} {
			for _, l := range idxRules {
				en := urlfilter.NewEngine(stringStorage(l + "\n" + exc + "\n"))
				for _, q := range idxReqs {
					if q.IsHostnameRequest {
						continue
					}
					for _, src := range []string{"http://page.test/app/", "https://PAGE.test/app/?x=1"} {
						m := en.MatchRequest(rules.NewRequest(q.URL, src, rules.TypeScript))
						idxEvals.Add(1)
						if m.DocumentRule == nil || m.DocumentRule.RuleText != exc {
							c.Run.Violate(ev.Violation{Pred: "shortcut-index-finds-what-matches", Sig: map[string]any{"exception": exc, "rule": l, "url": q.URL, "source": src, "engine": "Engine.MatchRequest"},
								What: fmt.Sprintf("Engine over [%s, %s], request %s from %s: DocumentRule = %s, the exception matches the page (shortcut %q is in the page's address)", l, exc, q.URL, src, renderNetText(m.DocumentRule), mustNetRule(exc, 0).Shortcut), Replay: map[string]any{"rule": exc, "class": "index"}})
						}
					}
				}
			}
		}
		var idxLists [][]int
		for size := 1; size <= 3; size++ {
			enum.Sequences(len(idxRules), size, func(s []int) bool {
				idxLists = append(idxLists, append([]int{}, s...))
				return true
			})
		}
		c.parallel(len(idxLists), func(li int) {
			var lines []string
			for _, i := range idxLists[li] {
				lines = append(lines, idxRules[i])
			}
			ne := urlfilter.NewNetworkEngine(stringStorage(joinLines(lines) + "\n"))
			de := urlfilter.NewDNSEngine(stringStorage(joinLines(lines) + "\n"))
			for _, q := range idxReqs {
				idxEvals.Add(1)
				var want []string
				for _, l := range lines {
					if mustNetRule(l, 0).Match(q) {
						want = append(want, l)
					}
				}
				for _, l := range lines {
					r := mustNetRule(l, 0)
					if re, status, _ := rules.VerifRegexp(r); status == 1 {
						target := q.URL
						if rules.VerifShouldMatchHostname(r, q) {
							target = q.Hostname
						}
						if re.MatchString(target) != r.Match(q) {
							c.Run.Violate(ev.Violation{Pred: "accepted-url-contains-shortcut", Sig: map[string]any{"rule": l, "url": q.URL, "hostname_request": q.IsHostnameRequest},
								What:   fmt.Sprintf("rule %q (shortcut %q), request %s (hostname request: %v): the compiled pattern accepts %q = %v, Match = %v", l, r.Shortcut, q.URL, q.IsHostnameRequest, target, re.MatchString(target), r.Match(q)),
								Replay: map[string]any{"rule": l, "class": "index"}})
						}
					}
				}
				got := sortedSet(netTexts(ne.MatchAll(q)))
				if !eqStrings(got, sortedSet(want)) {
					c.Run.Violate(ev.Violation{Pred: "shortcut-index-finds-what-matches", Sig: map[string]any{"lines": lines, "url": q.URL, "hostname_request": q.IsHostnameRequest},
						What: fmt.Sprintf("engine over %v, request %s (hostname request: %v): MatchAll returns %v, the rules that match are %v", lines, q.URL, q.IsHostnameRequest, got, sortedSet(want)), Replay: map[string]any{"rule": lines[0], "class": "index"}})
				}
				// the DNS engine files the same rules (none of them carries a modifier) under the same shortcuts
				if q.IsHostnameRequest && de != nil {
					res, _ := de.Match(q.Hostname)
					if gotD := sortedSet(netTexts(res.NetworkRules)); !eqStrings(gotD, sortedSet(want)) {
						c.Run.Violate(ev.Violation{Pred: "shortcut-index-finds-what-matches", Sig: map[string]any{"lines": lines, "hostname": q.Hostname, "engine": "dns"},
							What: fmt.Sprintf("DNSEngine over %v, Match(%q): NetworkRules %v, the rules that match the host name are %v", lines, q.Hostname, gotD, sortedSet(want)), Replay: map[string]any{"rule": lines[0], "class": "index"}})
					}
				}
			}
		})
		c.Run.Set("index_layer_evaluations", idxEvals.Load())
		c.Run.Set("rules_per_class", perClass)
		c.Run.Set("bundled_files", files)
		c.Run.Set("rules_parsed", cnt.rules.Load())
		c.Run.Set("rules_with_shortcut", cnt.withShortcut.Load())
		c.Run.Set("rules_invalid_regexp", cnt.invalid.Load())
		c.Run.Set("rules_state_cap_hit", cnt.capHit.Load())
		c.Run.Set("states", cnt.states.Load())
		c.Run.Set("transitions", cnt.transitions.Load())
		c.Run.Set("traces_validated_against_impl", cnt.witnesses.Load())
		phEvals, phCases := c05ParseHistory(c, "")
		c.Run.Set("parse_history_cases", phCases)
		c.Run.Set("parse_history_evaluations", phEvals)
		c.Run.Set("evaluations", cnt.withShortcut.Load()+phEvals)
		c.Run.Set("distinct_nontrivial", cnt.nontrivial.Load())
		c.Run.Set("rule", fmt.Sprintf("mask patterns of <=%d tokens (both case modes), every valid regular expression of <=%d tokens over %d regex tokens, and every regex rule of the bundled lists; non-trivial = rule has a shortcut and a non-empty language; per rule every reachable state of (compiled DFA x KMP(shortcut)) over 94 graphic ASCII characters", nMask, nRegex, len(c05RegexTokens)))
		c.Run.Set("exhaustive", exhaustive && cnt.capHit.Load() == 0)
		c.Run.Assumption("alphabet is graphic ASCII; non-ASCII case folding (U+017F, U+212A) is outside the property's quantifier")
		c.Run.Assumption("a violation is reported only after the witness URL was confirmed on the real *regexp.Regexp, strings.Contains and NetworkRule.Match")
	})
}
