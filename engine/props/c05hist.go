package props

import (
	"fmt"
	"strings"

	"github.com/AdguardTeam/urlfilter/rules"

	"verif/ev"
)

// C05, parse-history layer.  The shortcut of a rule is a function of its own
// text: a rule parsed after another rule that shares its pattern text (with
// different modifiers) has the shortcut, and gives the answers, of the same text
// parsed first.  Every case uses host names no other case uses, so that
// process-wide state, if there is any, is in its initial state for these texts;
// the two parses are compared after renaming.
func c05ParseHistory(c *Ctx, only string) (evals, cases int64) {
	pats := []string{"||h%s.example/*", "||h%s.example^", "/ads%s/*", "|https://h%s.example/*", "h%s.example/*", "||h%s.example/ads%s/", "/h%s\\.exam[a-z]+/"}
	mods := []string{"", "$third-party", "$script", "$important", "$domain=a.test", "$dnstype=A", "$match-case", "$denyallow=x.test", "$client=10.0.0.1", "$badfilter", "$document", "$~third-party,image"}
	seq := 0
	next := func() string { seq++; return fmt.Sprintf("%05d", seq) }
	render := func(r *rules.NetworkRule, n string) string {
		reqs := []*rules.Request{
			rules.NewRequest("https://h"+n+".example/", "http://a.test/", rules.TypeScript),
			rules.NewRequest("https://h"+n+".example:8443/x", "", rules.TypeDocument),
			rules.NewRequest("https://h"+n+".example?q=1", "http://h"+n+".example/", rules.TypeImage),
			rules.NewRequest("http://h"+n+".example/ads"+n+"/x", "http://a.test/", rules.TypeScript),
			rules.NewRequest("http://other.test/ads"+n+"/", "", rules.TypeScript),
			rules.NewRequest("http://H"+n+".EXAMPLE/ADS"+n+"/", "", rules.TypeScript),
			rules.NewRequestForHostname("h" + n + ".example"),
			rules.NewRequestForHostname("sub.h" + n + ".example"),
		}
		reqs[6].DNSType, reqs[6].ClientIP = 1, mustAddr("10.0.0.1")
		var sb strings.Builder
		fmt.Fprintf(&sb, "shortcut=%q matches=", r.Shortcut)
		for _, q := range reqs {
			if r.Match(q) {
				sb.WriteByte('y')
			} else {
				sb.WriteByte('n')
			}
		}
		return sb.String()
	}
	for _, p := range pats {
		for _, m1 := range mods {
			for _, m2 := range mods {
				if m1 == m2 {
					continue
				}
				mk := func(n, m string) string { return strings.ReplaceAll(p, "%s", n) + m }
				if only != "" && only != p+" "+m1+" "+m2 {
					continue
				}
				nRef, nHist := next(), next()
				ref, err := rules.NewNetworkRule(mk(nRef, m2), 1)
				if err != nil {
					continue
				}
				first, err1 := rules.NewNetworkRule(mk(nHist, m1), 1)
				if err1 != nil {
					continue
				}
				// the first rule is used before the second one is parsed
				first.Match(rules.NewRequest("https://h"+nHist+".example/", "", rules.TypeScript))
				hist, err2 := rules.NewNetworkRule(mk(nHist, m2), 1)
				cases++
				evals += 16
				var got string
				if err2 != nil {
					got = "rejected: " + err2.Error()
				} else {
					got = strings.ReplaceAll(render(hist, nHist), nHist, nRef)
				}
				if want := render(ref, nRef); got != want {
					c.Run.Violate(ev.Violation{Pred: "shortcut-is-a-function-of-the-rule-text", Sig: map[string]any{"pattern": p, "first": m1, "second": m2},
						What:   fmt.Sprintf("rule %q parsed first in the process: %s; the same rule (host names renamed: %q) parsed after %q: %s", mk(nRef, m2), want, mk(nHist, m2), mk(nHist, m1), got),
						Replay: map[string]any{"parse_history": p + " " + m1 + " " + m2}})
					return evals, cases
				}
			}
		}
	}
	return evals, cases
}
