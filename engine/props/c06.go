package props

import (
	"fmt"
	"net/netip"
	"strings"
	"sync"
	"sync/atomic"

	"github.com/AdguardTeam/urlfilter"
	"github.com/AdguardTeam/urlfilter/filterlist"
	"github.com/AdguardTeam/urlfilter/rules"

	"verif/enum"
	"verif/ev"
)

// C06 — verdict follows the documented precedence, whatever the rule order.

const (
	c06Pat    = "||ads.example.com^"
	c06SrcPat = "||src.org^"
	c06URL    = "http://ads.example.com/x"
	c06Src    = "http://src.org/"
)

type c06Sym struct {
	s      srule
	source bool // matches the referrer as a document, not the request
	// onlyPath: the referrer-level rule only matches referrers whose path starts
	// with this (used by the engine layer, which asks from two referrers of one host)
	onlyPath string
}

func c06Alphabet() (syms []c06Sym) {
	for _, exc := range []bool{false, true} {
		for _, imp := range []bool{false, true} {
			for _, dom := range []bool{false, true} {
				var o []string
				if imp {
					o = append(o, "important")
				}
				if dom {
					o = append(o, "domain=src.org")
				}
				syms = append(syms, c06Sym{s: srule{exc, c06Pat, o}})
			}
		}
	}
	syms = append(syms,
		c06Sym{s: srule{false, c06Pat, []string{"dnsrewrite=1.2.3.4"}}},
		c06Sym{s: srule{true, c06Pat, []string{"dnsrewrite=1.2.3.4"}}},
		c06Sym{s: srule{false, c06Pat, []string{"dnsrewrite=1.2.3.4", "important"}}},
		c06Sym{s: srule{false, c06Pat, []string{"domain=~other.org"}}}, // restricted only: still generic
		c06Sym{s: srule{false, c06Pat, []string{"badfilter"}}},
		c06Sym{s: srule{false, c06Pat, []string{"important", "badfilter"}}},
		c06Sym{s: srule{true, c06Pat, []string{"badfilter"}}},
		c06Sym{s: srule{false, c06Pat, []string{"domain=src.org", "badfilter"}}},
		c06Sym{s: srule{false, c06Pat, []string{"dnsrewrite", "badfilter"}}}, // twin of the value-less rewrite rule only
		c06Sym{s: srule{true, c06Pat, []string{"dnsrewrite", "badfilter"}}},
		c06Sym{s: srule{true, c06Pat, []string{"stealth"}}},
		c06Sym{s: srule{true, ".com^", []string{"important"}}},    // short pattern: sequential table, found last
		c06Sym{s: srule{false, ".com^", []string{"important"}}},   // likewise, blocking
		c06Sym{s: srule{false, "/x", []string{"domain=src.org"}}}, // domains table
	)
	for _, x := range []string{"urlblock", "genericblock", "document", "elemhide", "genericblock,jsinject", "urlblock,important", "genericblock,important", "urlblock,badfilter", "genericblock,badfilter", "stealth,urlblock", "stealth", "important,document", "important,urlblock"} {
		syms = append(syms, c06Sym{s: srule{true, c06SrcPat, strings.Split(x, ",")}, source: true})
	}
	syms = append(syms, c06Sym{s: srule{true, "||src.org/app/", []string{"urlblock"}}, source: true, onlyPath: "/app/"})
	return syms
}

// c06Class: 0 none, 1 block, 2 allow, 3 block-important, 4 allow-important
func c06ClassOfS(s srule) int {
	imp := s.has("important")
	switch {
	case s.exc && imp:
		return 4
	case imp:
		return 3
	case s.exc:
		return 2
	}
	return 1
}

func c06ClassOfRule(r *rules.NetworkRule) int {
	if r == nil {
		return 0
	}
	imp := r.IsOptionEnabled(rules.OptionImportant)
	switch {
	case r.Whitelist && imp:
		return 4
	case imp:
		return 3
	case r.Whitelist:
		return 2
	}
	return 1
}

var c06ClassNames = []string{"none", "block", "allow", "block-important", "allow-important"}

// dropBadfiltered removes badfilter rules and their twins.
func dropBadfiltered(in []srule) (out []srule) {
	bad := map[string]bool{}
	for _, s := range in {
		if s.has("badfilter") {
			bad[s.ident()] = true
		}
	}
	for _, s := range in {
		if s.has("badfilter") || bad[s.ident()] {
			continue
		}
		out = append(out, s)
	}
	return out
}

// c06Reference computes the documented verdict class for request-level rules
// R and referrer-level rules S.  dns selects the DNS flavour (no referrer, no
// fall-back).
func c06Reference(R, S []srule, dns bool) int {
	R, S = dropBadfiltered(R), dropBadfiltered(S)
	urlblock, genericblock := false, false
	docClass := 0
	for _, s := range S {
		if s.has("dnsrewrite") || !s.exc {
			continue
		}
		ub := s.has("urlblock") || s.has("document")
		gb := s.has("genericblock")
		if ub {
			urlblock = true
		}
		if gb {
			genericblock = true
		}
		if ub || gb {
			if cl := c06ClassOfS(s); cl > docClass {
				docClass = cl
			}
		}
	}
	best := 0
	rank := func(cl int) int { return map[int]int{0: 0, 1: 1, 2: 2, 3: 3, 4: 4}[cl] }
	for _, r := range R {
		if r.has("dnsrewrite") || r.has("stealth") {
			continue
		}
		if !r.exc && !dns {
			if urlblock {
				continue
			}
			if genericblock && r.key()[1] == 0 { // no permitted $domain value: generic (negated values do not make a rule specific)
				continue
			}
		}
		if cl := c06ClassOfS(r); rank(cl) > rank(best) {
			best = cl
		}
	}
	if best == 0 && !dns {
		return docClass
	}
	return best
}

func c06Special(r *rules.NetworkRule) string {
	switch {
	case r == nil:
		return ""
	case r.DNSRewrite != nil:
		return "rewrite"
	case r.IsOptionEnabled(rules.OptionBadfilter):
		return "badfilter"
	case r.IsOptionEnabled(rules.OptionStealth) && !r.IsOptionEnabled(rules.OptionUrlblock) && !r.IsOptionEnabled(rules.OptionGenericblock):
		// a document-level exception may carry $stealth as well; a pure $stealth rule is special-purpose
		return "stealth"
	}
	return ""
}

func c06Direct(c *Ctx, syms []c06Sym, parsed []*rules.NetworkRule, ms []int) (evals int64) {
	var R, S []int
	for _, i := range ms {
		if syms[i].source {
			S = append(S, i)
		} else {
			R = append(R, i)
		}
	}
	var Rs, Ss []srule
	for _, i := range R {
		Rs = append(Rs, syms[i].s)
	}
	for _, i := range S {
		Ss = append(Ss, syms[i].s)
	}
	wantWeb := c06Reference(Rs, Ss, false)
	wantDNS := c06Reference(Rs, nil, true)
	texts := func() []string {
		var t []string
		for _, i := range ms {
			t = append(t, syms[i].s.text())
		}
		return t
	}
	reported := false
	enum.DistinctPermutations(R, func(pr []int) bool {
		rl := make([]*rules.NetworkRule, len(pr))
		for k, i := range pr {
			rl[k] = parsed[i]
		}
		evals++
		d := rules.GetDNSBasicRule(append([]*rules.NetworkRule{}, rl...))
		if got := c06ClassOfRule(d); (got != wantDNS || c06Special(d) != "") && !reported {
			reported = true
			c.Run.Violate(ev.Violation{Pred: "dns-verdict-equals-reference", Sig: map[string]any{"rules": texts()},
				What:   fmt.Sprintf("GetDNSBasicRule(%v) = %s (%s%s), documented precedence gives %s", netTexts(rl), renderNetText(d), c06ClassNames[got], c06Special(d), c06ClassNames[wantDNS]),
				Replay: map[string]any{"rules": netTexts(rl), "source_rules": []string{}}})
		}
		enum.DistinctPermutations(S, func(ps []int) bool {
			sl := make([]*rules.NetworkRule, len(ps))
			for k, i := range ps {
				sl[k] = parsed[i]
			}
			evals++
			in1, in2 := append([]*rules.NetworkRule{}, rl...), append([]*rules.NetworkRule{}, sl...)
			m := rules.NewMatchingResult(in1, in2)
			// the lists handed in are the caller's: the same lists evaluated again give the same verdict
			again := rules.NewMatchingResult(in1, in2).GetBasicResult()
			_ = rules.GetDNSBasicRule(in1)
			same := len(in1) == len(rl) && len(in2) == len(sl)
			for k := range rl {
				same = same && in1[k] == rl[k]
			}
			for k := range sl {
				same = same && in2[k] == sl[k]
			}
			if (!same || again != m.GetBasicResult()) && !reported {
				reported = true
				c.Run.Violate(ev.Violation{Pred: "web-verdict-equals-reference", Sig: map[string]any{"rules": texts(), "route": "same lists evaluated twice"},
					What:   fmt.Sprintf("NewMatchingResult(rules=%v, sourceRules=%v): first evaluation %s, second evaluation of the same two lists %s; the lists afterwards: %v, %v", netTexts(rl), netTexts(sl), renderNetText(m.GetBasicResult()), renderNetText(again), netTextsSafe(in1), netTextsSafe(in2)),
					Replay: map[string]any{"rules": netTexts(rl), "source_rules": netTexts(sl)}})
			}
			b := m.GetBasicResult()
			if got := c06ClassOfRule(b); (got != wantWeb || c06Special(b) != "" || c06Special(m.BasicRule) != "") && !reported {
				reported = true
				c.Run.Violate(ev.Violation{Pred: "web-verdict-equals-reference", Sig: map[string]any{"rules": texts()},
					What:   fmt.Sprintf("NewMatchingResult(rules=%v, sourceRules=%v).GetBasicResult() = %s (%s%s), documented precedence gives %s", netTexts(rl), netTexts(sl), renderNetText(b), c06ClassNames[got], c06Special(b), c06ClassNames[wantWeb]),
					Replay: map[string]any{"rules": netTexts(rl), "source_rules": netTexts(sl)}})
			}
			// the accessors only read the result: the verdict is the same after every one of them
			_ = m.GetCosmeticOption()
			if b2 := m.GetBasicResult(); b2 != b && !reported {
				reported = true
				c.Run.Violate(ev.Violation{Pred: "web-verdict-equals-reference", Sig: map[string]any{"rules": texts(), "route": "GetBasicResult after GetCosmeticOption"},
					What:   fmt.Sprintf("NewMatchingResult(rules=%v, sourceRules=%v): GetBasicResult() = %s, after GetCosmeticOption() on the same result %s", netTexts(rl), netTexts(sl), renderNetText(b), renderNetText(b2)),
					Replay: map[string]any{"rules": netTexts(rl), "source_rules": netTexts(sl)}})
			}
			return true
		})
		return true
	})
	return evals
}

func c06Engine(c *Ctx, syms []c06Sym, set []int) (evals int64) {
	var Rs, Ss, SsApp []srule
	for _, i := range set {
		if syms[i].source {
			SsApp = append(SsApp, syms[i].s)
			if syms[i].onlyPath == "" {
				Ss = append(Ss, syms[i].s)
			}
		} else {
			Rs = append(Rs, syms[i].s)
		}
	}
	wantWeb := c06Reference(Rs, Ss, false)
	wantWebApp := c06Reference(Rs, SsApp, false) // asked from http://src.org/app/x
	wantNet := c06Reference(Rs, nil, false)
	wantDNS := c06Reference(Rs, nil, true)
	reported := false
	enum.Permutations(len(set), func(p []int) bool {
		lines := make([]string, len(set))
		for k, j := range p {
			lines[k] = syms[set[j]].s.text()
		}
		for split := 0; split <= len(lines); split++ {
			if split == 0 && len(lines) > 0 {
				continue // same as split == len
			}
			l1 := &filterlist.StringRuleList{ID: 1, RulesText: joinLines(lines[:split]) + "\n"}
			l2 := &filterlist.StringRuleList{ID: 2, RulesText: joinLines(lines[split:]) + "\n"}
			all := []filterlist.RuleList{l1, l2}
			if (split+len(lines))%2 == 1 {
				// every other arrangement: a list without rules between the two
				all = []filterlist.RuleList{l1, &filterlist.StringRuleList{ID: 0, RulesText: "! nothing here\n"}, l2}
			}
			st, err := filterlist.NewRuleStorage(all)
			if err != nil {
				panic(HarnessError(err.Error()))
			}
			evals += 3
			e := urlfilter.NewEngine(st)
			b := e.MatchRequest(rules.NewRequest(c06URL, c06Src, rules.TypeScript)).GetBasicResult()
			// the same engine asked again from another page of the same referrer host, and back
			for k, src := range []string{"http://src.org/app/x", c06Src, "http://src.org/app/x"} {
				want := wantWebApp
				if k == 1 {
					want = wantWeb
				}
				evals++
				b2 := e.MatchRequest(rules.NewRequest(c06URL, src, rules.TypeScript)).GetBasicResult()
				if got := c06ClassOfRule(b2); (got != want || c06Special(b2) != "") && !reported {
					reported = true
					c.Run.Violate(ev.Violation{Pred: "engine-verdict-equals-reference", Sig: map[string]any{"engine": "Engine.MatchRequest (reused)", "lines": lines, "split": split, "referrer": src},
						What:   fmt.Sprintf("Engine.MatchRequest over lists %v | %v, query #%d on the same engine from referrer %s: %s (%s), documented precedence gives %s", lines[:split], lines[split:], k+2, src, renderNetText(b2), c06ClassNames[got], c06ClassNames[want]),
						Replay: map[string]any{"lines": lines, "split": split}})
				}
			}
			ne := urlfilter.NewNetworkEngine(st)
			nb, _ := ne.Match(rules.NewRequest(c06URL, c06Src, rules.TypeScript))
			de := urlfilter.NewDNSEngine(st)
			dres, _ := de.MatchRequest(&urlfilter.DNSRequest{Hostname: "ads.example.com", DNSType: 1})
			type obs struct {
				name string
				r    *rules.NetworkRule
				want int
			}
			// the other routes to the DNS verdict: recomputed from the result's own rule list after its
			// accessors were used (reading a result does not change it), and the Match(hostname) wrapper
			// asked right after a request that carried client fields
			before := netTexts(dres.NetworkRules)
			var afterRule *rules.NetworkRule
			if p := protect(func() {
				_ = dres.DNSRewritesAll()
				_ = dres.DNSRewrites()
				_ = dres.DNSRewritesAll()
				afterRule = rules.GetDNSBasicRule(dres.NetworkRules)
			}); p != nil || fmt.Sprint(netTextsSafe(dres.NetworkRules)) != fmt.Sprint(before) {
				if !reported {
					reported = true
					c.Run.Violate(ev.Violation{Pred: "engine-verdict-equals-reference", Sig: map[string]any{"engine": "DNSResult accessors", "lines": lines, "split": split},
						What:   fmt.Sprintf("DNSEngine.MatchRequest over lists %v | %v: NetworkRules was %v, after DNSRewritesAll/DNSRewrites it is %v (panic: %v)", lines[:split], lines[split:], before, netTextsSafe(dres.NetworkRules), p),
						Replay: map[string]any{"lines": lines, "split": split}})
				}
			}
			_, _ = de.MatchRequest(&urlfilter.DNSRequest{Hostname: "ads.example.com", DNSType: 28, ClientName: "kid", ClientIP: netip.MustParseAddr("10.0.0.7"), SortedClientTags: []string{"a", "b"}})
			wres, _ := de.Match("ads.example.com")
			for _, o := range []obs{{"Engine.MatchRequest", b, wantWeb}, {"NetworkEngine.Match", nb, wantNet}, {"DNSEngine.MatchRequest", dres.NetworkRule, wantDNS},
				{"DNSEngine.MatchRequest, GetDNSBasicRule(NetworkRules) after the accessors,", afterRule, wantDNS}, {"DNSEngine.Match(hostname) after a request with client fields,", wres.NetworkRule, wantDNS}} {
				// $domain rules are browser-only: the DNS engine ignores them
				want := o.want
				if strings.HasPrefix(o.name, "DNSEngine.") {
					var hostLevel []srule
					for _, r := range Rs {
						if !r.has("domain") && !r.has("stealth") {
							hostLevel = append(hostLevel, r)
						}
					}
					// badfilter twins of dropped rules are dropped with them
					want = c06Reference(hostLevel, nil, true)
				}
				if got := c06ClassOfRule(o.r); (got != want || c06Special(o.r) != "") && !reported {
					reported = true
					c.Run.Violate(ev.Violation{Pred: "engine-verdict-equals-reference", Sig: map[string]any{"engine": o.name, "lines": lines, "split": split},
						What:   fmt.Sprintf("%s over lists %v | %v: %s (%s%s), documented precedence gives %s", o.name, lines[:split], lines[split:], renderNetText(o.r), c06ClassNames[got], c06Special(o.r), c06ClassNames[want]),
						Replay: map[string]any{"lines": lines, "split": split}})
				}
			}
		}
		return true
	})
	return evals
}

// c06Size: candidate lists of 9, 17 and 33 rules -- many copies of an ordinary
// blocking rule with one or two special rules at the first, a middle and the
// last position -- with and without document-level rules on the referrer.
func c06Size(c *Ctx) (evals int64) {
	plain := srule{false, c06Pat, []string{"script"}}
	specials := [][]srule{
		{{true, c06Pat, nil}},
		{{false, c06Pat, []string{"important"}}},
		{{true, c06Pat, []string{"important"}}, {false, c06Pat, []string{"important"}}},
		{{false, c06Pat, []string{"domain=src.org"}}},
		{{false, c06Pat, []string{"script", "badfilter"}}, {true, c06Pat, nil}},
		{{true, c06Pat, []string{"badfilter"}}, {true, c06Pat, nil}, {false, c06Pat, []string{"important"}}},
		// a domain-specific block with seventeen modifiers stays a block: a plain exception beats it
		{{false, c06Pat, []string{"script", "image", "stylesheet", "object", "subdocument", "xmlhttprequest", "media", "font", "websocket", "ping", "other", "third-party", "match-case", "domain=src.org", "denyallow=x.com", "ctag=~tv", "client=~nobody"}}, {true, c06Pat, nil}},
	}
	sources := [][]srule{nil, {{true, c06SrcPat, []string{"genericblock"}}}, {{true, c06SrcPat, []string{"urlblock"}}}}
	for _, n := range []int{9, 17, 33} {
		for _, sp := range specials {
			for _, pos := range []int{0, n / 2, n - len(sp)} {
				var rs []srule
				for i := 0; len(rs) < n; i++ {
					if i == pos {
						rs = append(rs, sp...)
					} else {
						rs = append(rs, plain)
					}
				}
				var rl []*rules.NetworkRule
				for _, r := range rs {
					rl = append(rl, r.parse())
				}
				wantDNS := c06Reference(rs, nil, true)
				evals++
				if d := rules.GetDNSBasicRule(append([]*rules.NetworkRule{}, rl...)); c06ClassOfRule(d) != wantDNS || c06Special(d) != "" {
					c.Run.Violate(ev.Violation{Pred: "dns-verdict-equals-reference", Sig: map[string]any{"size": n, "special": sp[0].text(), "position": pos},
						What:   fmt.Sprintf("GetDNSBasicRule over %d rules (%d x %q with %v at position %d) = %s, documented precedence gives %s", len(rl), n-len(sp), plain.text(), textsOf(sp), pos, renderNetText(d), c06ClassNames[wantDNS]),
						Replay: map[string]any{"rules": netTexts(rl), "source_rules": []string{}}})
					return evals
				}
				for _, src := range sources {
					var sl []*rules.NetworkRule
					for _, r := range src {
						sl = append(sl, r.parse())
					}
					want := c06Reference(rs, src, false)
					evals++
					m := rules.NewMatchingResult(append([]*rules.NetworkRule{}, rl...), sl)
					if b := m.GetBasicResult(); c06ClassOfRule(b) != want || c06Special(b) != "" {
						c.Run.Violate(ev.Violation{Pred: "web-verdict-equals-reference", Sig: map[string]any{"size": n, "special": sp[0].text(), "position": pos, "sources": textsOf(src)},
							What:   fmt.Sprintf("NewMatchingResult over %d rules (%d x %q with %v at position %d), referrer rules %v: %s, documented precedence gives %s", len(rl), n-len(sp), plain.text(), textsOf(sp), pos, textsOf(src), renderNetText(b), c06ClassNames[want]),
							Replay: map[string]any{"rules": netTexts(rl), "source_rules": netTexts(sl)}})
						return evals
					}
				}
			}
		}
	}
	// three hundred rules that share one shortcut (of several 5-byte windows, and of exactly one), the one
	// exception among them first, in the middle or last, in one list or split over three: through the engines
	for _, pc := range []struct{ pat, url, host string }{{c06Pat, c06URL, "ads.example.com"}, {"||a.com^", "http://a.com/x.js", "a.com"}} {
		for _, filler := range []string{"domain=f%03d.example|src.org", "client=device%03d"} {
			for _, pos := range []int{0, 150, 300} {
				var lines []string
				for i := 0; i < 300; i++ {
					if i == pos {
						lines = append(lines, "@@"+pc.pat)
					}
					lines = append(lines, pc.pat+"$"+fmt.Sprintf(filler, i))
				}
				if pos == 300 {
					lines = append(lines, "@@"+pc.pat)
				}
				lines = append(lines, pc.pat)
				for _, split := range []int{1, 3} {
					var lists []filterlist.RuleList
					per := (len(lines) + split - 1) / split
					for k := 0; k < split; k++ {
						lo, hi := k*per, (k+1)*per
						if hi > len(lines) {
							hi = len(lines)
						}
						lists = append(lists, &filterlist.StringRuleList{ID: []int{7, 3, 5}[k], RulesText: joinLines(lines[lo:hi]) + "\n", IgnoreCosmetic: false})
					}
					st, err := filterlist.NewRuleStorage(lists)
					if err != nil {
						panic(HarnessError(err.Error()))
					}
					req := rules.NewRequest(pc.url, c06Src, rules.TypeScript)
					b1 := urlfilter.NewEngine(st).MatchRequest(req).GetBasicResult()
					b2, _ := urlfilter.NewNetworkEngine(st).Match(req)
					got := []*rules.NetworkRule{b1, b2}
					names := []string{"Engine.MatchRequest", "NetworkEngine.Match"}
					if strings.HasPrefix(filler, "client") {
						st2, _ := filterlist.NewRuleStorage(lists)
						dres, _ := urlfilter.NewDNSEngine(st2).MatchRequest(&urlfilter.DNSRequest{Hostname: pc.host})
						var d *rules.NetworkRule
						if dres != nil {
							d = dres.NetworkRule
						}
						got = append(got, d)
						names = append(names, "DNSEngine.MatchRequest")
					}
					for which, b := range got {
						evals++
						if c06ClassOfRule(b) != 2 {
							c.Run.Violate(ev.Violation{Pred: "engine-verdict-equals-reference", Sig: map[string]any{"size": len(lines), "engine": names[which], "pattern": pc.pat, "filler": filler, "exception_at": pos, "lists": split},
								What:   fmt.Sprintf("%s over %d rules in %d list(s): 300 x %q, %q and the exception %q at position %d, request %s: %s, documented precedence gives allow", names[which], len(lines), split, pc.pat+"$"+filler, pc.pat, "@@"+pc.pat, pos, pc.url, renderNetText(b)),
								Replay: map[string]any{"doc_only": true}})
						}
					}
				}
			}
		}
	}
	return evals
}

// netTextsSafe is netTexts for lists that may hold nil entries.
func netTextsSafe(rs []*rules.NetworkRule) (out []string) {
	for _, r := range rs {
		if r == nil {
			out = append(out, "<nil>")
		} else {
			out = append(out, r.RuleText)
		}
	}
	return out
}

func textsOf(rs []srule) (out []string) {
	for _, r := range rs {
		out = append(out, r.text())
	}
	return out
}

// c06DocOnly: exception rules whose modifiers apply to documents only
// ($elemhide, $generichide, $genericblock, $urlblock, $jsinject, $content,
// $extension) and whose pattern matches the URL of a *sub-request* take no part
// in that sub-request's verdict.
func c06DocOnly(c *Ctx) (evals int64) {
	base := []srule{{false, c06Pat, nil}, {false, c06Pat, []string{"domain=src.org"}}, {false, c06Pat, []string{"important"}}, {true, c06Pat, nil}}
	var docOnly []srule
	for _, m := range []string{"elemhide", "generichide", "genericblock", "urlblock", "jsinject", "content", "extension", "genericblock,important", "urlblock,important"} {
		docOnly = append(docOnly, srule{true, c06Pat, strings.Split(m, ",")})
	}
	for bmask := 0; bmask < 1<<len(base); bmask++ {
		var bs []srule
		for i, b := range base {
			if bmask&(1<<i) != 0 {
				bs = append(bs, b)
			}
		}
		wantWithSrc := c06Reference(bs, nil, false)
		var noDomain []srule
		for _, b := range bs {
			if !b.has("domain") {
				noDomain = append(noDomain, b)
			}
		}
		wantNoSrc := c06Reference(noDomain, nil, false) // $domain rules need a source
		for _, d := range docOnly {
			for _, first := range []bool{true, false} {
				var lines []string
				if first {
					lines = append(lines, d.text())
				}
				for _, b := range bs {
					lines = append(lines, b.text())
				}
				if !first {
					lines = append(lines, d.text())
				}
				st := stringStorage(joinLines(lines) + "\n")
				e := urlfilter.NewEngine(st)
				ne := urlfilter.NewNetworkEngine(st)
				// the DNS engine consults host-level rules only: the document-only
				// exception (with or without $important) and $domain rules take no part
				{
					evals++
					dres, _ := urlfilter.NewDNSEngine(st).MatchRequest(&urlfilter.DNSRequest{Hostname: "ads.example.com", DNSType: 1})
					if got, want := c06ClassOfRule(dres.NetworkRule), c06Reference(noDomain, nil, true); got != want {
						c.Run.Violate(ev.Violation{Pred: "document-only-exception-ignored-for-sub-requests", Sig: map[string]any{"lines": lines, "engine": "dns"},
							What:   fmt.Sprintf("DNSEngine.MatchRequest over %v for ads.example.com: %s (%s); the browser-only exception takes no part, the host-level rules give %s", lines, renderNetText(dres.NetworkRule), c06ClassNames[got], c06ClassNames[want]),
							Replay: map[string]any{"doc_only": true}})
						return evals
					}
				}
				for _, src := range []string{c06Src, ""} {
					for _, t := range []rules.RequestType{rules.TypeScript, rules.TypeImage, rules.TypeSubdocument} {
						req := rules.NewRequest(c06URL, src, t)
						want := wantWithSrc
						if src == "" {
							want = wantNoSrc
						}
						evals++
						b1 := e.MatchRequest(req).GetBasicResult()
						b2, _ := ne.Match(req)
						for which, b := range []*rules.NetworkRule{b1, b2} {
							if got := c06ClassOfRule(b); got != want {
								c.Run.Violate(ev.Violation{Pred: "document-only-exception-ignored-for-sub-requests", Sig: map[string]any{"lines": lines, "type": int(t), "source": src, "engine": which},
									What:   fmt.Sprintf("%s over %v, request %s from %q type %d: %s (%s); the document-only exception takes no part, the other rules give %s", []string{"Engine.MatchRequest", "NetworkEngine.Match"}[which], lines, c06URL, src, t, renderNetText(b), c06ClassNames[got], c06ClassNames[want]),
									Replay: map[string]any{"doc_only": true}})
								return evals
							}
						}
					}
				}
			}
		}
	}
	return evals
}

// c06Composition: the engine's verdict for a request is the documented
// precedence applied to the rules that match the request and the document-level
// rules that match its referrer asked as a source-less document request --
// whatever the request type and however request and referrer are related (the
// same URL, the same host, another host, none).
func c06Composition(c *Ctx) (evals int64) {
	syms := []string{
		"||ads.example.com^", "||ads.example.com^$important", "@@||ads.example.com^", "||ads.example.com^$domain=ads.example.com", "||ads.example.com^$domain=src.org",
		"@@||ads.example.com^$urlblock", "@@||ads.example.com^$urlblock,domain=ads.example.com", "@@||ads.example.com^$genericblock,domain=ads.example.com", "@@||ads.example.com^$document",
		"@@||src.org^$urlblock", "@@||src.org^$genericblock,domain=src.org", "@@||ads.example.com^$elemhide,domain=src.org", "||ads.example.com^$subdocument,third-party",
	}
	type rq struct {
		url, src string
		t        rules.RequestType
	}
	const u = "http://ads.example.com/x"
	var reqs []rq
	for _, t := range []rules.RequestType{rules.TypeDocument, rules.TypeSubdocument, rules.TypeScript} {
		for _, src := range []string{"", u, "http://ads.example.com/other", "http://sub.ads.example.com/", "http://src.org/", "http://src.org/app/x"} {
			reqs = append(reqs, rq{u, src, t})
		}
	}
	var sets [][]int
	for size := 1; size <= 3; size++ {
		enum.Combinations(len(syms), size, func(s []int) bool {
			sets = append(sets, append([]int{}, s...))
			return true
		})
	}
	var n atomic.Int64
	c.parallel(len(sets), func(si int) {
		var lines []string
		for _, i := range sets[si] {
			lines = append(lines, syms[i])
		}
		for _, rev := range []bool{false, true} {
			ls := append([]string{}, lines...)
			if rev {
				for i, j := 0, len(ls)-1; i < j; i, j = i+1, j-1 {
					ls[i], ls[j] = ls[j], ls[i]
				}
			}
			st := stringStorage(joinLines(ls) + "\n")
			e := urlfilter.NewEngine(st)
			ne := urlfilter.NewNetworkEngine(st)
			for _, q := range reqs {
				n.Add(1)
				got := e.MatchRequest(rules.NewRequest(q.url, q.src, q.t))
				var srcRules []*rules.NetworkRule
				if q.src != "" {
					srcRules = ne.MatchAll(rules.NewRequest(q.src, "", rules.TypeDocument))
				}
				want := rules.NewMatchingResult(ne.MatchAll(rules.NewRequest(q.url, q.src, q.t)), srcRules)
				g := renderNetText(got.BasicRule) + " / " + renderNetText(got.DocumentRule) + " / " + renderNetText(got.GetBasicResult())
				w := renderNetText(want.BasicRule) + " / " + renderNetText(want.DocumentRule) + " / " + renderNetText(want.GetBasicResult())
				if g != w {
					c.Run.Violate(ev.Violation{Pred: "engine-verdict-is-precedence-over-request-and-referrer-rules", Sig: map[string]any{"lines": ls, "url": q.url, "source": q.src, "type": int(q.t)},
						What:   fmt.Sprintf("Engine.MatchRequest over %v for %s from %q (type %d): basic/document/result = %s; precedence over the rules matching the request and the source-less referrer lookup gives %s", ls, q.url, q.src, q.t, g, w),
						Replay: map[string]any{"composition": true}})
					return
				}
			}
		}
	})
	return n.Load()
}

func init() {
	register("C06", "exploration", func(c *Ctx) {
		syms := c06Alphabet()
		parsed := make([]*rules.NetworkRule, len(syms))
		for i, s := range syms {
			parsed[i] = s.s.parse()
		}
		if c.Replay != nil {
			if dl, _ := c.Replay["doc_only"].(bool); dl {
				c06DocOnly(c)
				return
			}
			if cp, _ := c.Replay["composition"].(bool); cp {
				c06Composition(c)
				return
			}
			if lines, ok := c.Replay["lines"].([]any); ok {
				var set []int
				for _, l := range lines {
					for i, s := range syms {
						if s.s.text() == l.(string) {
							set = append(set, i)
						}
					}
				}
				c06Engine(c, syms, set)
				return
			}
			var ms []int
			for _, key := range []string{"rules", "source_rules"} {
				for _, l := range c.Replay[key].([]any) {
					for i, s := range syms {
						if s.s.text() == l.(string) {
							ms = append(ms, i)
						}
					}
				}
			}
			sortInts(ms)
			c06Direct(c, syms, parsed, ms)
			return
		}
		maxSize := 4
		if c.Thorough() {
			maxSize = 5
		}
		var all [][]int
		for size := 0; size <= maxSize; size++ {
			enum.Multisets(len(syms), size, func(s []int) bool {
				all = append(all, append([]int{}, s...))
				return true
			})
		}
		var mu sync.Mutex
		var evals, engEvals, nontrivial int64
		exhaustive := true
		c.parallel(len(all), func(i int) {
			if c.Expired() {
				mu.Lock()
				exhaustive = false
				mu.Unlock()
				return
			}
			e := c06Direct(c, syms, parsed, all[i])
			mu.Lock()
			evals += e
			if len(all[i]) >= 2 {
				nontrivial++
			}
			mu.Unlock()
			if i%9973 == 0 {
				var t []string
				for _, k := range all[i] {
					t = append(t, syms[k].s.text())
				}
				c.Run.Sample(map[string]any{"multiset": t})
			}
		})
		var sets [][]int
		for size := 1; size <= 3; size++ {
			enum.Combinations(len(syms), size, func(s []int) bool {
				sets = append(sets, append([]int{}, s...))
				return true
			})
		}
		c.parallel(len(sets), func(i int) {
			if c.Expired() {
				mu.Lock()
				exhaustive = false
				mu.Unlock()
				return
			}
			e := c06Engine(c, syms, sets[i])
			mu.Lock()
			engEvals += e
			mu.Unlock()
		})
		c.Run.Set("alphabet_size", int64(len(syms)))
		c.Run.Set("multisets", int64(len(all)))
		c.Run.Set("direct_evaluations", evals)
		c.Run.Set("engine_sets", int64(len(sets)))
		c.Run.Set("engine_evaluations", engEvals)
		c.Run.Set("evaluations", evals+engEvals)
		c.Run.Set("distinct_nontrivial", nontrivial)
		c.Run.Set("document_only_layer_evaluations", c06DocOnly(c))
		c.Run.Set("size_layer_evaluations", c06Size(c))
		compEvals := c06Composition(c)
		c.Run.Set("composition_evaluations", compEvals)
		c.Run.Set("rule", fmt.Sprintf("every multiset of <=%d rules over %d symbols (request-level: exception x important x $domain, $dnsrewrite, $badfilter twins, $stealth; referrer-level: urlblock/genericblock/document/elemhide/+important/+badfilter), request- and referrer-level lists each in every distinct permutation, through NewMatchingResult and GetDNSBasicRule; every set of <=3 symbols in every line order and every split into two lists through Engine, NetworkEngine and DNSEngine; composition layer: every set of <=3 of 13 rules (incl. $domain-restricted document-level exceptions) in both line orders x 18 requests (3 types x referrer none/same URL/same host/sub-domain/other host/other path): Engine.MatchRequest == precedence over the rules matching the request and the source-less referrer lookup; non-trivial = at least two rules", maxSize, len(syms)))
		c.Run.Set("exhaustive", exhaustive)
		c.Run.Assumption("ties inside a class are not compared; only the verdict class is")
		c.Run.Assumption("$badfilter is applied per list (request-level and referrer-level rules separately), as NewMatchingResult documents")
	})
}

func sortInts(a []int) {
	for i := 1; i < len(a); i++ {
		for j := i; j > 0 && a[j] < a[j-1]; j-- {
			a[j], a[j-1] = a[j-1], a[j]
		}
	}
}
