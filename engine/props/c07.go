package props

import (
	"fmt"
	"math/bits"
	"sort"
	"strings"
	"sync"

	"github.com/AdguardTeam/urlfilter"
	"github.com/AdguardTeam/urlfilter/filterlist"
	"github.com/AdguardTeam/urlfilter/rules"

	"verif/enum"
	"verif/ev"
)

// C07 — rule priority is a strict weak order; the winner is never outranked.

type c07Rule struct {
	text  string
	rule  *rules.NetworkRule
	class int // 3 important exception, 2 important block, 1 exception, 0 block
	spec  int // 1 if $domain-specific
	count int // number of modifiers written
	feat  []int
	// manual: written by hand, not built from the feature vector (feat is all zero)
	manual bool
}

func (r *c07Rule) key() [3]int { return [3]int{r.class, r.spec, r.count} }

func keyLess(a, b [3]int) bool {
	for i := 0; i < 3; i++ {
		if a[i] != b[i] {
			return a[i] < b[i]
		}
	}
	return false
}

// feature slots and their values (value 0 = absent)
var c07Features = [][]string{
	{"", "@@"},        // 0 exception
	{"", "important"}, // 1
	{"", "domain=a.com", "domain=~a.com", "domain=a.*"},                          // 2 (the negated form restricts but does not make the rule specific; a wildcard-TLD domain does)
	{"", "script", "script,image", "~script", "~script,~image", "script,~image"}, // 3 content types
	{"", "third-party", "~third-party"},                                          // 4
	{"", "match-case", "~match-case"},                                            // 5
	{"", "dnstype=A", "dnstype=~A"},                                              // 6
	{"", "ctag=pc", "ctag=~pc"},                                                  // 7
	{"", "client=10.0.0.1", "client=~10.0.0.1", "client='living/room'"},          // 8
	{"", "denyallow=x.com"},                                                      // 9
	{"", "redirect=noopjs"},                                                      // 10: rejected by the parser today; structural axioms apply as soon as it parses
}

func c07Build(feat []int) *c07Rule {
	var opts []string
	count := 0
	for slot := 1; slot < len(c07Features); slot++ {
		if v := c07Features[slot][feat[slot]]; v != "" {
			opts = append(opts, v)
			count += strings.Count(v, ",") + 1
		}
	}
	text := c07Features[0][feat[0]] + "||x.test^"
	if len(opts) > 0 {
		text += "$" + strings.Join(opts, ",")
	}
	r, err := rules.NewNetworkRule(text, 1)
	if err != nil {
		return nil
	}
	cr := &c07Rule{text: text, rule: r, count: count, feat: append([]int{}, feat...)}
	exc, imp := feat[0] == 1, feat[1] == 1
	switch {
	case exc && imp:
		cr.class = 3
	case imp:
		cr.class = 2
	case exc:
		cr.class = 1
	}
	if feat[2] == 1 || feat[2] == 3 {
		cr.spec = 1
	}
	return cr
}

func c07Pool(quick bool) (pool []*c07Rule, rejected int) {
	dims := make([]int, len(c07Features))
	for i, f := range c07Features {
		dims[i] = len(f)
	}
	full := append([]int{}, dims...)
	// the dense part: the full product over the core values of every slot
	dims[2], dims[3], dims[5] = 3, 5, 2
	if quick {
		dims[5], dims[6], dims[4] = 1, 1, 2 // quick: drop match-case, dnstype and ~third-party
	}
	seen := map[string]bool{}
	feat := make([]int, len(dims))
	add := func() {
		if r := c07Build(feat); r != nil {
			if !seen[r.text] {
				seen[r.text] = true
				pool = append(pool, r)
			}
		} else {
			rejected++
		}
	}
	var rec func(i int)
	rec = func(i int) {
		if i == len(dims) {
			add()
			return
		}
		for v := 0; v < dims[i]; v++ {
			feat[i] = v
			rec(i + 1)
		}
	}
	rec(0)
	// the sparse part: every value of every slot (also the ones the dense part
	// leaves out), with at most k slots present besides exception and important
	k := 4
	if quick {
		k = 2
	}
	var sparse func(i, used int)
	sparse = func(i, used int) {
		if i == len(full) {
			add()
			return
		}
		lim := full[i]
		if i >= 2 && used == k {
			lim = 1
		}
		for v := 0; v < lim; v++ {
			feat[i] = v
			u := used
			if i >= 2 && v > 0 {
				u++
			}
			sparse(i+1, u)
		}
	}
	sparse(0, 0)
	// generic rules with as many modifiers as the grammar allows (18 and 19): they
	// must still rank below every $domain-specific rule of their class
	for _, exc := range []string{"", "@@"} {
		for _, imp := range []string{"", "important,"} {
			text := exc + "||x.test^$" + imp + "script,image,stylesheet,object,subdocument,xmlhttprequest,media,font,websocket,ping,other,third-party,match-case,dnstype=A,ctag=pc,client=10.0.0.1,denyallow=x.com,domain=~a.com"
			r, err := rules.NewNetworkRule(text, 1)
			if err != nil {
				panic(AlphabetRejected{Text: text, Err: err})
			}
			cr := &c07Rule{text: text, rule: r, count: 18, feat: make([]int, len(c07Features)), manual: true}
			if imp != "" {
				cr.count++
				cr.class = 2
			}
			if exc != "" {
				cr.class |= 1
			}
			pool = append(pool, cr)
		}
	}
	return pool, rejected
}

type bitMatrix struct {
	n, w int
	rows [][]uint64
}

func newBitMatrix(n int) *bitMatrix {
	w := (n + 63) / 64
	m := &bitMatrix{n: n, w: w, rows: make([][]uint64, n)}
	for i := range m.rows {
		m.rows[i] = make([]uint64, w)
	}
	return m
}
func (m *bitMatrix) set(i, j int)      { m.rows[i][j>>6] |= 1 << (uint(j) & 63) }
func (m *bitMatrix) get(i, j int) bool { return m.rows[i][j>>6]&(1<<(uint(j)&63)) != 0 }

func init() {
	register("C07", "exploration", func(c *Ctx) {
		pool, rejected := c07Pool(!c.Thorough())
		if c.Replay != nil {
			pool, _ = c07Pool(false)
		}
		n := len(pool)
		byText := map[string]int{}
		for i, r := range pool {
			byText[r.text] = i
		}
		M := newBitMatrix(n)
		c.parallel(n, func(i int) {
			for j := 0; j < n; j++ {
				if pool[i].rule.IsHigherPriority(pool[j].rule) {
					M.set(i, j)
				}
			}
		})
		var mu sync.Mutex
		violate := func(pred string, idx []int, what string) {
			var ts []string
			for _, i := range idx {
				ts = append(ts, pool[i].text)
			}
			mu.Lock()
			defer mu.Unlock()
			c.Run.Violate(ev.Violation{Pred: pred, Sig: map[string]any{"rules": ts}, What: what, Replay: map[string]any{"rules": ts}})
		}
		if c.Replay != nil {
			if _, ok := c.Replay["used"]; ok {
				c07Used(c)
				return
			}
			var idx []int
			for _, t := range c.Replay["rules"].([]any) {
				i, ok := byText[t.(string)]
				if !ok {
					panic(HarnessError("replay rule not in pool: " + t.(string)))
				}
				idx = append(idx, i)
			}
			for _, a := range idx {
				for _, b := range idx {
					fmt.Printf("  %q > %q : impl=%v reference=%v\n", pool[a].text, pool[b].text, M.get(a, b), keyLess(pool[b].key(), pool[a].key()))
					if M.get(a, b) != keyLess(pool[b].key(), pool[a].key()) {
						violate("replay", []int{a, b}, "implementation and documented criteria disagree")
					}
				}
			}
			return
		}
		var pairs, triples int64
		// irreflexive, asymmetric, consistent with the documented criteria: all pairs
		c.parallel(n, func(i int) {
			if M.get(i, i) {
				violate("irreflexive", []int{i}, fmt.Sprintf("%q outranks itself", pool[i].text))
			}
			for j := 0; j < n; j++ {
				ij, ji := M.get(i, j), M.get(j, i)
				if i < j && ij && ji {
					violate("asymmetric", []int{i, j}, fmt.Sprintf("%q and %q outrank each other", pool[i].text, pool[j].text))
				}
				want := keyLess(pool[j].key(), pool[i].key())
				if pool[i].feat[10] != 0 || pool[j].feat[10] != 0 {
					continue // no documented rank for $redirect: only the structural axioms are checked
				}
				if ij != want && !(ij && ji) {
					violate("consistent-with-documented-criteria", []int{i, j},
						fmt.Sprintf("IsHigherPriority(%q, %q) = %v but (class, specific, modifier count) is %v vs %v", pool[i].text, pool[j].text, ij, pool[i].key(), pool[j].key()))
				}
			}
		})
		pairs = int64(n) * int64(n)
		// transitivity of > and of incomparability via bit-matrix products: all triples
		inc := newBitMatrix(n) // incomparable: neither outranks the other
		for i := 0; i < n; i++ {
			for j := 0; j < n; j++ {
				if !M.get(i, j) && !M.get(j, i) {
					inc.set(i, j)
				}
			}
		}
		checkTrans := func(R *bitMatrix, pred, word string) {
			c.parallel(n, func(a int) {
				reach := make([]uint64, R.w)
				for b := 0; b < n; b++ {
					if R.get(a, b) {
						for k := 0; k < R.w; k++ {
							reach[k] |= R.rows[b][k]
						}
					}
				}
				for k := 0; k < R.w; k++ {
					if miss := reach[k] &^ R.rows[a][k]; miss != 0 {
						cc := k*64 + bits.TrailingZeros64(miss)
						if cc >= n {
							continue
						}
						// find the middle element
						for b := 0; b < n; b++ {
							if R.get(a, b) && R.get(b, cc) {
								violate(pred, []int{a, b, cc}, fmt.Sprintf("%q %s %q and %q %s %q but not %q %s %q", pool[a].text, word, pool[b].text, pool[b].text, word, pool[cc].text, pool[a].text, word, pool[cc].text))
								break
							}
						}
						return
					}
				}
			})
		}
		checkTrans(M, "transitive", "outranks")
		checkTrans(inc, "incomparability-transitive", "ties with")
		triples = int64(n) * int64(n) * int64(n)

		// adding one modifier makes the rule strictly higher
		var additions int64
		for i, r := range pool {
			if r.manual {
				continue // the hand-written maximal rules have no feature vector
			}
			for slot := 1; slot < len(c07Features); slot++ {
				var cands []int
				switch {
				case slot == 3 && r.feat[3] == 1:
					cands = []int{2, 5} // script -> script,image and script,~image
				case slot == 3 && r.feat[3] == 3:
					cands = []int{4} // ~script -> ~script,~image
				case slot == 3 && r.feat[3] == 0:
					cands = []int{1, 3}
				case r.feat[slot] == 0:
					for v := 1; v < len(c07Features[slot]); v++ {
						cands = append(cands, v) // the plain and, where there is one, the negated form
					}
				}
				for _, v := range cands {
					nf := append([]int{}, r.feat...)
					nf[slot] = v
					nr := c07Build(nf)
					if nr == nil {
						continue
					}
					j, ok := byText[nr.text]
					if !ok {
						continue // outside the quick pool
					}
					additions++
					if !M.get(j, i) || M.get(i, j) {
						violate("adding-a-modifier-raises-priority", []int{j, i}, fmt.Sprintf("%q does not strictly outrank %q", pool[j].text, pool[i].text))
					}
				}
			}
		}

		// selection: one representative per priority key, all lists of <= k in all permutations
		repIdx := map[[3]int]int{}
		for i, r := range pool {
			if _, ok := repIdx[r.key()]; !ok {
				repIdx[r.key()] = i
			}
		}
		var reps []int
		for _, i := range repIdx {
			reps = append(reps, i)
		}
		sort.Ints(reps)
		k := 3
		if c.Thorough() {
			k = 4
		}
		var selections int64
		exhaustive := true
		for size := 1; size <= k; size++ {
			var combos [][]int
			enum.Combinations(len(reps), size, func(s []int) bool {
				combos = append(combos, append([]int{}, s...))
				return true
			})
			var local int64
			c.parallel(len(combos), func(ci int) {
				if c.Expired() {
					mu.Lock()
					exhaustive = false
					mu.Unlock()
					return
				}
				s := combos[ci]
				best := pool[reps[s[0]]].key()
				for _, x := range s {
					if kk := pool[reps[x]].key(); keyLess(best, kk) {
						best = kk
					}
				}
				cnt := int64(0)
				enum.Permutations(size, func(p []int) bool {
					cands := make([]*rules.NetworkRule, size)
					idx := make([]int, size)
					for i, j := range p {
						idx[i] = reps[s[j]]
						cands[i] = pool[idx[i]].rule
					}
					cnt += 2
					for which, sel := range []*rules.NetworkRule{rules.NewMatchingResult(cands, nil).BasicRule, rules.GetDNSBasicRule(cands)} {
						name := []string{"NewMatchingResult", "GetDNSBasicRule"}[which]
						if sel == nil {
							violate("selection-returns-a-candidate", idx, name+" selected nothing")
							continue
						}
						si := byText[sel.RuleText]
						if pool[si].key() != best {
							violate("selected-rule-is-maximal", idx, fmt.Sprintf("%s over %v selected %q with key %v, the maximal key is %v", name, netTexts(cands), sel.RuleText, pool[si].key(), best))
						}
						for _, cd := range cands {
							if cd.IsHigherPriority(sel) {
								violate("selected-rule-not-outranked", idx, fmt.Sprintf("%s over %v selected %q, which %q outranks", name, netTexts(cands), sel.RuleText, cd.RuleText))
							}
						}
					}
					return true
				})
				mu.Lock()
				local += cnt
				mu.Unlock()
			})
			selections += local
		}

		// document rule selection: every list of <=4 referrer-level exceptions in every permutation
		docPool := []srule{
			{true, "||src.org^", []string{"urlblock"}}, {true, "||src.org^", []string{"genericblock"}}, {true, "||src.org^", []string{"document"}},
			{true, "||src.org^", []string{"urlblock", "important"}}, {true, "||src.org^", []string{"genericblock", "jsinject"}},
			{true, "||src.org^", []string{"stealth", "urlblock"}}, {true, "||src.org^", []string{"urlblock", "domain=a.com"}},
			{true, "||src.org^", []string{"elemhide"}}, {true, "||src.org^", []string{"stealth"}}, {true, "||src.org^", []string{"genericblock", "important", "stealth"}},
		}
		docRules := make([]*rules.NetworkRule, len(docPool))
		for i, d := range docPool {
			docRules[i] = d.parse()
		}
		isDocLevel := func(d srule) bool { return d.has("urlblock") || d.has("genericblock") || d.has("document") }
		docKey := func(d srule) [3]int {
			k := d.key()
			if d.has("document") {
				k[2] += 4 // $document stands for five modifiers
			}
			return k
		}
		var docSelections int64
		for size := 1; size <= 4; size++ {
			enum.Combinations(len(docPool), size, func(sub []int) bool {
				var best *[3]int
				for _, i := range sub {
					if isDocLevel(docPool[i]) {
						k := docKey(docPool[i])
						if best == nil || keyLess(*best, k) {
							best = &k
						}
					}
				}
				enum.Permutations(size, func(p []int) bool {
					cands := make([]*rules.NetworkRule, size)
					var texts []string
					for i, j := range p {
						cands[i] = docRules[sub[j]]
						texts = append(texts, docPool[sub[j]].text())
					}
					docSelections++
					dr := rules.NewMatchingResult(nil, cands).DocumentRule
					switch {
					case best == nil && dr != nil:
						c.Run.Violate(ev.Violation{Pred: "document-rule-is-document-level", Sig: map[string]any{"rules": texts}, What: fmt.Sprintf("source rules %v: DocumentRule = %q although no rule is document-level", texts, dr.RuleText), Replay: map[string]any{"rules": []string{}}})
					case best != nil && dr == nil:
						c.Run.Violate(ev.Violation{Pred: "document-rule-selected", Sig: map[string]any{"rules": texts}, What: fmt.Sprintf("source rules %v: no DocumentRule selected", texts), Replay: map[string]any{"rules": []string{}}})
					case best != nil:
						var got [3]int
						for i, d := range docPool {
							if docRules[i] == dr {
								got = docKey(d)
							}
						}
						if got != *best {
							c.Run.Violate(ev.Violation{Pred: "document-rule-is-maximal", Sig: map[string]any{"rules": texts}, What: fmt.Sprintf("source rules %v: DocumentRule = %q with key %v, the maximal key is %v", texts, dr.RuleText, got, *best), Replay: map[string]any{"rules": []string{}}})
						}
					}
					return true
				})
				return true
			})
		}
		c.Run.Set("document_rule_selections", docSelections)

		// selection through the engines: candidates spread over the three lookup tables,
		// every ordered list of <=3 of them; the selected rule has the maximal key
		var engPool []srule
		for _, pat := range []string{"||ads.example.com^", ".com^", "/x"} {
			for _, exc := range []bool{false, true} {
				for _, imp := range []bool{false, true} {
					var o []string
					if imp {
						o = append(o, "important")
					}
					if pat == "/x" {
						o = append(o, "domain=src.org")
					}
					engPool = append(engPool, srule{exc, pat, o})
				}
			}
		}
		// rules of the $domain table filed under a domain and under its own
		// sub-domain, next to rules filed under the sub-domain only
		engPool = append(engPool, srule{false, "/x", []string{"domain=src.org|sub.src.org"}}, srule{true, "/x", []string{"domain=sub.src.org"}},
			srule{false, "/x", []string{"domain=sub.src.org", "important"}}, srule{true, "/x", []string{"domain=sub.src.org|src.org", "script"}})
		var engLists [][]int
		for size := 1; size <= 3; size++ {
			enum.Sequences(len(engPool), size, func(s []int) bool {
				seen := map[int]bool{}
				for _, v := range s {
					if seen[v] {
						return true
					}
					seen[v] = true
				}
				engLists = append(engLists, append([]int{}, s...))
				return true
			})
		}
		var engSelections int64
		c.parallel(len(engLists), func(li int) {
			var lines []string
			byT := map[string]srule{}
			for _, i := range engLists[li] {
				lines = append(lines, engPool[i].text())
				byT[engPool[i].text()] = engPool[i]
			}
			st := stringStorage(joinLines(lines) + "\n")
			if li%2 == 0 {
				// three lists, the middle one comments only, no terminator after the last line; file-backed for every eighth case
				var release func()
				st, release = deployStorage(lines, li%8 == 0)
				defer release()
			} else if len(lines) > 1 {
				// one list per rule, list ids in no particular order
				var lists []filterlist.RuleList
				for k, l := range lines {
					lists = append(lists, &filterlist.StringRuleList{ID: []int{50, 10, 40}[k], RulesText: l + "\n"})
				}
				var serr error
				if st, serr = filterlist.NewRuleStorage(lists); serr != nil {
					panic(HarnessError(serr.Error()))
				}
			}
			for _, src := range []string{"http://src.org/", "http://sub.src.org/", "http://a.b.c.d.e.f.g.h.sub.src.org/"} {
				req := func() *rules.Request {
					return rules.NewRequest("http://ads.example.com/x", src, rules.TypeScript)
				}
				// the candidates are the rules that match as written
				best := [3]int{-1, 0, 0}
				for _, i := range engLists[li] {
					sr, ok := sruleToC04(engPool[i])
					if !ok {
						panic(HarnessError("engine pool rule outside the structural reference: " + engPool[i].text()))
					}
					if !c04Reference(sr, req()) {
						continue
					}
					if k := engPool[i].key(); keyLess(best, k) {
						best = k
					}
				}
				sel1 := urlfilter.NewEngine(st).MatchRequest(req()).BasicRule
				sel2, _ := urlfilter.NewNetworkEngine(st).Match(req())
				for which, sel := range []*rules.NetworkRule{sel1, sel2} {
					name := []string{"Engine.MatchRequest", "NetworkEngine.Match"}[which]
					mu.Lock()
					engSelections++
					mu.Unlock()
					if (sel == nil) != (best[0] == -1) || (sel != nil && byT[sel.RuleText].key() != best) {
						c.Run.Violate(ev.Violation{Pred: "engine-selected-rule-is-maximal", Sig: map[string]any{"lines": lines, "engine": name, "source": src},
							What: fmt.Sprintf("%s over %v for a request from %s selected %s, the maximal (class, specific, count) key among the rules that match is %v", name, lines, src, renderNetText(sel), best), Replay: map[string]any{"rules": []string{}}})
					}
				}
			}
		})
		// six lists (headers of different lengths, ids in no particular order), one candidate each, in every order of the lists
		{
			six := []srule{{false, "||ads.example.com^", nil}, {true, "||ads.example.com^", nil}, {false, "||ads.example.com^", []string{"important"}},
				{false, "/x", []string{"domain=src.org"}}, {true, "||ads.example.com^", []string{"important"}}, {false, ".com^", []string{"script"}}}
			ids := []int{50, 10, 40, 20, 30, 15}
			enum.Permutations(len(six), func(p []int) bool {
				var lists []filterlist.RuleList
				var order []string
				best := [3]int{-1, 0, 0}
				byT := map[string]srule{}
				for _, i := range p {
					lists = append(lists, &filterlist.StringRuleList{ID: ids[i], RulesText: "! list " + strings.Repeat("#", 3*i) + "\n" + six[i].text() + "\n"})
					order = append(order, fmt.Sprintf("%d:%s", ids[i], six[i].text()))
					byT[six[i].text()] = six[i]
					if k := six[i].key(); keyLess(best, k) {
						best = k
					}
				}
				st, serr := filterlist.NewRuleStorage(lists)
				if serr != nil {
					panic(HarnessError(serr.Error()))
				}
				req := rules.NewRequest("http://ads.example.com/x", "http://src.org/", rules.TypeScript)
				sel1 := urlfilter.NewEngine(st).MatchRequest(req).BasicRule
				sel2, _ := urlfilter.NewNetworkEngine(st).Match(req)
				for which, sel := range []*rules.NetworkRule{sel1, sel2} {
					engSelections++
					if sel == nil || byT[sel.RuleText].key() != best {
						name := []string{"Engine.MatchRequest", "NetworkEngine.Match"}[which]
						c.Run.Violate(ev.Violation{Pred: "engine-selected-rule-is-maximal", Sig: map[string]any{"lists": order, "engine": name},
							What: fmt.Sprintf("%s over six lists %v (id:rule, each list with a header line) selected %s, the maximal (class, specific, count) key among the rules that match is %v", name, order, renderNetText(sel), best), Replay: map[string]any{"rules": []string{}}})
					}
				}
				return true
			})
		}
		c.Run.Set("engine_selections", engSelections)
		usedEvals, usedRules := c07Used(c)
		c.Run.Set("used_rule_comparisons", usedEvals)
		c.Run.Set("used_rule_pool", int64(usedRules))

		c.Run.Sample(map[string]any{"pair": []string{pool[1].text, pool[n-1].text}, "first_outranks_second": M.get(1, n-1)})
		c.Run.Sample(map[string]any{"rule": pool[n/2].text, "key(class,specific,count)": pool[n/2].key()})
		c.Run.Set("pool_size", int64(n))
		c.Run.Set("pool_rejected_by_parser", int64(rejected))
		c.Run.Set("pairs_checked", pairs)
		c.Run.Set("triples_checked", triples)
		c.Run.Set("modifier_additions_checked", additions)
		c.Run.Set("priority_keys", int64(len(reps)))
		c.Run.Set("selection_evaluations", selections)
		c.Run.Set("evaluations", pairs+selections+additions+usedEvals)
		c.Run.Set("distinct_nontrivial", int64(n))
		c.Run.Set("rule", fmt.Sprintf("pool = every parseable combination of 10 feature slots (%d rules, all distinct and non-trivial); all ordered pairs and all triples of the pool through a bit matrix; every pool rule x every addable modifier; every list of <=%d priority-key representatives in every permutation through NewMatchingResult and GetDNSBasicRule; used-rule layer: every ordered pair of a second pool (9 patterns incl. the any-URL ones x 10 modifier sets x exception) with each side freshly parsed or already matched against 4 requests", n, k))
		c.Run.Set("exhaustive", exhaustive)
		c.Run.Assumption("documented criteria: verdict class, then $domain-specific over generic, then the number of modifiers written; $redirect cannot be parsed and is not in the pool")
	})
}
