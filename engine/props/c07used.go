package props

import (
	"fmt"

	"github.com/AdguardTeam/urlfilter/rules"

	"verif/ev"
)

// C07, used-rule layer.  Priority is a property of the rule as written: a rule
// object that has been through Match (lazy pattern state filled in) ranks
// exactly like a freshly parsed copy of the same text.  Patterns include the
// ones that match any URL ("*", "|", "||", empty), a regular expression and an
// un-anchored literal; every rule is "used" against URL and hostname requests.
func c07Used(c *Ctx) (evals int64, nRules int) {
	pats := []string{"||x.test^", "*", "|", "||", "", "/x\\.te/", "x.test", "|http://x.test/|", "||x.test/*"}
	optss := []string{"script,domain=example.org", "script,image,domain=example.org", "important,domain=example.org", "domain=~example.org,script",
		"client=127.0.0.1", "dnstype=A,client=127.0.0.1", "third-party,domain=a.com", "denyallow=y.test,domain=example.org", "match-case,domain=example.org", "ctag=pc"}
	var texts []string
	for _, exc := range []string{"", "@@"} {
		for _, p := range pats {
			for _, o := range optss {
				t := exc + p + "$" + o
				if _, err := rules.NewNetworkRule(t, 1); err == nil {
					texts = append(texts, t)
				}
			}
		}
	}
	hq := rules.NewRequestForHostname("x.test")
	hq.ClientIP, hq.ClientName, hq.SortedClientTags, hq.DNSType = mustAddr("127.0.0.1"), "pc1", []string{"pc"}, 1
	reqs := []*rules.Request{
		rules.NewRequest("http://x.test/x.js", "http://example.org/", rules.TypeScript),
		rules.NewRequest("https://sub.x.test/X.TEst/", "http://a.com/", rules.TypeImage),
		hq, rules.NewRequestForHostname("other.test"),
	}
	mk := func(t string) *rules.NetworkRule {
		r, err := rules.NewNetworkRule(t, 1)
		if err != nil {
			panic(HarnessError(err.Error()))
		}
		return r
	}
	fresh := make([]*rules.NetworkRule, len(texts))
	used := make([]*rules.NetworkRule, len(texts))
	for i, t := range texts {
		fresh[i], used[i] = mk(t), mk(t)
	}
	// relations among fresh rules first (nothing has been matched yet)
	n := len(texts)
	rel := make([][]bool, n)
	for i := range rel {
		rel[i] = make([]bool, n)
		for j := range rel[i] {
			rel[i][j] = fresh[i].IsHigherPriority(fresh[j])
		}
	}
	for i := range used {
		for _, q := range reqs {
			used[i].Match(q)
		}
	}
	for i := 0; i < n; i++ {
		for j := 0; j < n; j++ {
			evals += 3
			uf, fu, uu := used[i].IsHigherPriority(fresh[j]), fresh[i].IsHigherPriority(used[j]), used[i].IsHigherPriority(used[j])
			if uf != rel[i][j] || fu != rel[i][j] || uu != rel[i][j] {
				c.Run.Violate(ev.Violation{Pred: "priority-is-a-function-of-the-rule-text", Sig: map[string]any{"a": texts[i], "b": texts[j]},
					What: fmt.Sprintf("IsHigherPriority(%q, %q) = %v on freshly parsed rules; after the rules have been matched against requests: used/fresh %v, fresh/used %v, used/used %v", texts[i], texts[j], rel[i][j], uf, fu, uu),
					Replay: map[string]any{"used": []string{texts[i], texts[j]}}})
				return evals, n
			}
		}
	}
	return evals, n
}
