package props

import (
	"fmt"
	"sort"
	"strings"
	"sync"

	"github.com/AdguardTeam/urlfilter"
	"github.com/AdguardTeam/urlfilter/filterlist"
	"github.com/AdguardTeam/urlfilter/rules"

	"verif/enum"
	"verif/ev"
	"verif/ref"
)

// C08 — $badfilter disables exactly its twin rules, however many are present.

// srule is a rule given structurally.
type srule struct {
	exc     bool
	pattern string
	opts    []string
}

func (s srule) text() string {
	t := s.pattern
	if s.exc {
		t = "@@" + t
	}
	if len(s.opts) > 0 {
		t += "$" + strings.Join(s.opts, ",")
	}
	return t
}

// twin returns s with "badfilter" inserted at option position pos.
func (s srule) twin(pos int) srule {
	o := append([]string{}, s.opts[:pos]...)
	o = append(o, "badfilter")
	o = append(o, s.opts[pos:]...)
	return srule{s.exc, s.pattern, o}
}

// ident is the structural identity "apart from badfilter": exception flag,
// pattern and the multiset of modifiers with their values.
func (s srule) ident() string {
	var o []string
	for _, x := range s.opts {
		if x != "badfilter" {
			o = append(o, x)
		}
	}
	sort.Strings(o)
	return fmt.Sprintf("%v|%s|%s", s.exc, ref.EffectivePattern(s.pattern), strings.Join(o, ","))
}

func (s srule) has(prefix string) bool {
	for _, o := range s.opts {
		if o == prefix || strings.HasPrefix(o, prefix+"=") {
			return true
		}
	}
	return false
}

// key is the documented priority key (class, specific, modifier count).
func (s srule) key() [3]int {
	var k [3]int
	imp := s.has("important")
	switch {
	case s.exc && imp:
		k[0] = 3
	case imp:
		k[0] = 2
	case s.exc:
		k[0] = 1
	}
	for _, o := range s.opts {
		if strings.HasPrefix(o, "domain=") {
			for _, d := range strings.Split(o[len("domain="):], "|") {
				if !strings.HasPrefix(d, "~") {
					k[1] = 1
				}
			}
		}
		if o != "badfilter" {
			k[2]++
		}
	}
	return k
}

func (s srule) parse() *rules.NetworkRule { return mustNetRule(s.text(), 1) }

const (
	c08P1 = "||ads.example.com^"
	c08P2 = "||ads.example.com/x"
	c08P3 = "||ads.example.com/*" // documented to mean the same as P1
)

func c08Pool() (pool []srule) {
	optSets := [][]string{
		{}, {"script"}, {"image"}, {"script", "image"}, {"~script"}, {"third-party"}, {"~third-party"}, {"important"}, {"match-case"},
		{"domain=src.org"}, {"domain=other.org"}, {"domain=src.org|other.org"}, {"domain=~src.org"},
		{"denyallow=x.com"}, {"denyallow=y.com"}, {"dnstype=A"}, {"dnstype=AAAA"}, {"dnstype=~A"},
		{"ctag=pc"}, {"ctag=phone"}, {"client=10.0.0.1"}, {"client=10.0.0.2"}, {"client=~laptop"}, {"client=~Laptop"},
		{"dnsrewrite=1.2.3.4"}, {"dnsrewrite=2.3.4.5"}, {"dnsrewrite=NOERROR;MX;10 mx.example"}, {"dnsrewrite=NOERROR;HTTPS;10 svc.example alpn=h2"}, {"dnsrewrite=NOERROR;SRV;10 60 8080 srv.example"},
		{"script", "third-party"}, {"third-party", "script"}, {"script", "domain=src.org"}, {"important", "script"},
	}
	for _, o := range optSets {
		pool = append(pool, srule{false, c08P1, o})
	}
	for _, o := range [][]string{{}, {"script"}, {"important"}, {"denyallow=x.com"}, {"dnstype=A"}} {
		pool = append(pool, srule{true, c08P1, o})
	}
	for _, o := range [][]string{{}, {"script"}} {
		pool = append(pool, srule{false, c08P2, o})
	}
	// appended last: positions above are referred to by index below
	for _, o := range [][]string{{}, {"script"}} {
		pool = append(pool, srule{false, c08P3, o})
	}
	for _, o := range [][]string{{"dnsrewrite"}, {"dnsrewrite=REFUSED"}} {
		pool = append(pool, srule{false, c08P1, o})
	}
	pool = append(pool, srule{true, c08P1, []string{"dnsrewrite"}})
	// modifiers that stand for several options (a later one must not wipe an earlier one)
	pool = append(pool, srule{true, c08P1, []string{"document"}}, srule{true, c08P1, []string{"important", "document"}})
	// value lists with several entries of one polarity (their order must not depend on the parse)
	pool = append(pool, srule{false, c08P1, []string{"domain=src.org|other.org|third.org"}}, srule{false, c08P1, []string{"domain=~a.org|~b.org|src.org"}},
		srule{false, c08P1, []string{"denyallow=x.com|y.com|z.com"}})
	// value lists of eight and of nine entries that differ in an entry another entry covers; long values that differ late
	pool = append(pool, srule{false, c08P1, []string{"denyallow=d1.test|d2.test|d3.test|d4.test|d5.test|d6.test|d7.test|d8.test"}},
		srule{false, c08P1, []string{"denyallow=d1.test|d2.test|d3.test|d4.test|d5.test|d6.test|d7.test|d8.test|sub.d1.test"}},
		srule{false, c08P1, []string{"denyallow=d1.test|d2.test|d3.test|d4.test|d5.test|d6.test|d7.test|d8.test|d8.test"}},
		srule{false, c08P1, []string{"dnsrewrite=NOERROR;TXT;" + strings.Repeat("a", 255) + "one"}},
		srule{false, c08P1, []string{"dnsrewrite=NOERROR;TXT;" + strings.Repeat("a", 255) + "two"}})
	// a rule of 4090 bytes: its twin is longer than 4 KiB
	{
		ds := []string{"src.org"}
		for i := 0; len(c08P1+"$domain="+strings.Join(ds, "|")) < 4090-13; i++ {
			ds = append(ds, fmt.Sprintf("pad%05d.test", i))
		}
		d := strings.Join(ds, "|")
		for len(c08P1+"$domain="+d) < 4090 {
			d += "x"
		}
		pool = append(pool, srule{false, c08P1, []string{"domain=" + d}})
	}
	return pool
}

type c08Ctx struct {
	c  *Ctx
	mu sync.Mutex
}

func (x *c08Ctx) violate(pred string, sig map[string]any, what string, replay map[string]any) {
	x.c.Run.Violate(ev.Violation{Pred: pred, Sig: sig, What: what, Replay: replay})
}

func isBad(r *rules.NetworkRule) bool { return r != nil && r.IsOptionEnabled(rules.OptionBadfilter) }

// c08Pair checks one ordered pair (x, y): twin(x) disables y iff same identity.
func c08Pair(x *c08Ctx, sx, sy srule) int64 {
	var evals int64
	same := sx.ident() == sy.ident()
	y := sy.parse()
	if same && strings.Contains(sy.text(), "|") {
		// a rule and its twin are parsed separately; whether the twin negates the
		// rule must not depend on the parse: 32 fresh parses of both
		for k := 0; k < 32; k++ {
			evals++
			y2, t2 := sy.parse(), sx.twin(len(sx.opts)).parse()
			if got := rules.NewMatchingResult([]*rules.NetworkRule{y2, t2}, nil).GetBasicResult(); got != nil {
				x.violate("badfilter-disables-exactly-twins", map[string]any{"badfilter": sx.ident(), "rule": sy.ident(), "parse": "repeated"},
					fmt.Sprintf("parse #%d of %q and of its twin %q: NewMatchingResult still returns %q", k+1, sy.text(), sx.twin(len(sx.opts)).text(), got.RuleText),
					map[string]any{"badfilter": sx.twin(len(sx.opts)).text(), "rule": sy.text()})
				break
			}
		}
	}
	for pos := 0; pos <= len(sx.opts); pos++ {
		st := sx.twin(pos)
		t := st.parse()
		sig := map[string]any{"badfilter": sx.ident(), "rule": sy.ident()}
		replay := map[string]any{"badfilter": st.text(), "rule": sy.text()}
		for _, order := range [][]*rules.NetworkRule{{y, t}, {t, y}} {
			evals++
			if y.DNSRewrite != nil {
				// an exception is effective iff it disables the rewrite it covers
				var victim *rules.NetworkRule
				if y.Whitelist {
					victim = mustNetRule(c08P1+"$dnsrewrite=9.9.9.9", 1)
					order = append(append([]*rules.NetworkRule{}, order...), victim)
				}
				res := &urlfilter.DNSResult{NetworkRules: order}
				got := res.DNSRewrites()
				for _, g := range got {
					if isBad(g) {
						x.violate("badfilter-rule-never-returned", sig, fmt.Sprintf("DNSRewrites over %v returned the badfilter rule %q", netTexts(order), g.RuleText), replay)
					}
				}
				effective := false
				for _, g := range got {
					if g == y {
						effective = true
					}
				}
				if victim != nil {
					effective = true
					for _, g := range got {
						if g == victim {
							effective = false
						}
					}
				}
				if effective == same {
					x.violate("badfilter-disables-exactly-twins-rewrite", sig,
						fmt.Sprintf("rewrite rule %q with badfilter rule %q: effective=%v, expected effective=%v", sy.text(), st.text(), effective, !same), replay)
				}
				continue
			}
			// the exported filter itself: no badfilter rule survives, y survives iff the twin identity differs, the input is left alone
			{
				before := netTexts(order)
				kept := rules.RemoveBadfilterRules(order)
				hasY := false
				for _, k := range kept {
					if isBad(k) {
						x.violate("badfilter-rule-never-returned", sig, fmt.Sprintf("RemoveBadfilterRules(%v) keeps the badfilter rule %q", before, k.RuleText), replay)
					}
					if k == y {
						hasY = true
					}
				}
				if hasY == same {
					x.violate("badfilter-disables-exactly-twins", sig,
						fmt.Sprintf("RemoveBadfilterRules(%v): rule %q kept=%v, expected kept=%v (twin identity equal: %v)", before, sy.text(), hasY, !same, same), replay)
				}
				if after := netTexts(order); fmt.Sprint(after) != fmt.Sprint(before) {
					x.violate("badfilter-disables-exactly-twins", sig, fmt.Sprintf("RemoveBadfilterRules changed the list it was given: %v became %v", before, after), replay)
				}
			}
			for which, sel := range []*rules.NetworkRule{rules.NewMatchingResult(order, nil).BasicRule, rules.GetDNSBasicRule(order)} {
				name := []string{"NewMatchingResult", "GetDNSBasicRule"}[which]
				if isBad(sel) {
					x.violate("badfilter-rule-never-returned", sig, fmt.Sprintf("%s over %v returned the badfilter rule", name, netTexts(order)), replay)
					continue
				}
				effective := sel == y
				if effective == same {
					x.violate("badfilter-disables-exactly-twins", sig,
						fmt.Sprintf("%s over %v: rule %q effective=%v, expected effective=%v (twin identity equal: %v)", name, netTexts(order), sy.text(), effective, !same, same), replay)
				}
			}
		}
	}
	return evals
}

// verdictOf renders class and priority key of a selected rule.
func verdictOf(sel *rules.NetworkRule, byText map[string]srule) string {
	if sel == nil {
		return "none"
	}
	s, ok := byText[sel.RuleText]
	if !ok {
		return "unknown:" + sel.RuleText
	}
	return fmt.Sprint(s.key())
}

func init() {
	register("C08", "exploration", func(c *Ctx) {
		x := &c08Ctx{c: c}
		pool := c08Pool()
		byText := map[string]srule{}
		for _, s := range pool {
			byText[s.text()] = s
		}
		if c.Replay != nil {
			if seq, ok := c.Replay["seq"].([]any); ok {
				var rs []*rules.NetworkRule
				for _, t := range seq {
					rs = append(rs, mustNetRule(t.(string), 1))
				}
				m := rules.NewMatchingResult(rs, nil)
				fmt.Printf("  NewMatchingResult(%v).BasicRule = %s ; GetDNSBasicRule = %s\n", netTexts(rs), renderNetText(m.BasicRule), renderNetText(rules.GetDNSBasicRule(rs)))
				base, _ := c.Replay["base_verdict"].(string)
				if got := verdictOfText(m.BasicRule); got != base {
					c.Run.Violate(ev.Violation{Pred: "replay", Sig: map[string]any{}, What: "verdict " + got + " differs from base verdict " + base})
				}
				return
			}
			bt, _ := c.Replay["badfilter"].(string)
			rt, _ := c.Replay["rule"].(string)
			b, y := mustNetRule(bt, 1), mustNetRule(rt, 1)
			sel := rules.NewMatchingResult([]*rules.NetworkRule{y, b}, nil).BasicRule
			fmt.Printf("  NewMatchingResult([%q, %q]).BasicRule = %s\n", rt, bt, renderNetText(sel))
			// re-run the whole pair layer for this pair
			for _, sx := range pool {
				for _, sy := range pool {
					for pos := 0; pos <= len(sx.opts); pos++ {
						if sx.twin(pos).text() == bt && sy.text() == rt {
							c08Pair(x, sx, sy)
							return
						}
					}
				}
			}
			return
		}

		var mu sync.Mutex
		var pairEvals, multEvals, engEvals int64
		exhaustive := true
		// --- unit layer: all ordered pairs x all badfilter positions x both orders
		c.parallel(len(pool), func(i int) {
			var e int64
			for j := range pool {
				e += c08Pair(x, pool[i], pool[j])
			}
			mu.Lock()
			pairEvals += e
			mu.Unlock()
		})

		// --- multiplicity layer
		baseIdx := []int{0, 1, 7, 9, 13, 33, 35, 38} // plain, script, important, domain, denyallow, @@, @@important, P2
		extraIdx := []int{1, 2, 5, 7, 8, 9, 13, 15, 18, 20, 29, 34}
		kmax := 2
		if c.Thorough() {
			kmax = 3
		}
		parsed := make([]*rules.NetworkRule, len(pool))
		twins := make([]*rules.NetworkRule, len(pool))
		for i, s := range pool {
			parsed[i] = s.parse()
			twins[i] = s.twin(len(s.opts)).parse()
		}
		var bases [][]int
		for size := 0; size <= 2; size++ {
			enum.Multisets(len(baseIdx), size, func(s []int) bool {
				b := make([]int, size)
				for i, v := range s {
					b[i] = baseIdx[v]
				}
				bases = append(bases, b)
				return true
			})
		}
		type job struct{ base, extra []int }
		var jobs []job
		for _, b := range bases {
			for k := 1; k <= kmax; k++ {
				enum.Combinations(len(extraIdx), k, func(s []int) bool {
					e := make([]int, k)
					for i, v := range s {
						e[i] = extraIdx[v]
					}
					// extras must be structurally distinct from every base rule
					for _, xi := range e {
						for _, bi := range b {
							if pool[xi].ident() == pool[bi].ident() {
								return true
							}
						}
					}
					jobs = append(jobs, job{b, e})
					return true
				})
			}
		}
		c.parallel(len(jobs), func(ji int) {
			if c.Expired() {
				mu.Lock()
				exhaustive = false
				mu.Unlock()
				return
			}
			j := jobs[ji]
			var baseRules []*rules.NetworkRule
			for _, b := range j.base {
				baseRules = append(baseRules, parsed[b])
			}
			wantWeb := verdictOf(rules.NewMatchingResult(baseRules, nil).BasicRule, byText)
			wantDNS := verdictOf(rules.GetDNSBasicRule(baseRules), byText)
			// the multiset to arrange: base rules, extras and their twins; items are
			// numbered so that equal base rules are not permuted twice
			var items []*rules.NetworkRule
			var ids []int
			for _, b := range j.base {
				items = append(items, parsed[b])
				ids = append(ids, b)
			}
			for _, e := range j.extra {
				items = append(items, parsed[e], twins[e])
				ids = append(ids, 1000+e, 2000+e)
			}
			order := make([]int, len(ids))
			for i := range order {
				order[i] = i
			}
			sort.Slice(order, func(a, b int) bool { return ids[order[a]] < ids[order[b]] })
			sortedIDs := make([]int, len(ids))
			sortedItems := make([]*rules.NetworkRule, len(ids))
			for i, o := range order {
				sortedIDs[i] = ids[o]
				sortedItems[i] = items[o]
			}
			idToItem := map[int]*rules.NetworkRule{}
			for i, id := range sortedIDs {
				idToItem[id] = sortedItems[i]
			}
			var e int64
			reported := false
			enum.DistinctPermutations(sortedIDs, func(p []int) bool {
				seq := make([]*rules.NetworkRule, len(p))
				for i, id := range p {
					seq[i] = idToItem[id]
				}
				e += 2
				m := rules.NewMatchingResult(seq, nil)
				d := rules.GetDNSBasicRule(seq)
				gotWeb, gotDNS := verdictOf(m.BasicRule, byText), verdictOf(d, byText)
				if isBad(m.BasicRule) || isBad(d) || isBad(m.DocumentRule) {
					gotWeb = "badfilter rule returned"
				}
				if (gotWeb != wantWeb || gotDNS != wantDNS) && !reported {
					reported = true
					var bt, et []string
					for _, b := range j.base {
						bt = append(bt, pool[b].text())
					}
					for _, x := range j.extra {
						et = append(et, pool[x].text())
					}
					x.violate("twins-leave-verdict-unchanged", map[string]any{"base": bt, "extras": et},
						fmt.Sprintf("base %v gives web=%s dns=%s; with extras %v and their badfilter twins arranged as %v it gives web=%s dns=%s", bt, wantWeb, wantDNS, et, netTexts(seq), gotWeb, gotDNS),
						map[string]any{"seq": netTexts(seq), "base_verdict": verdictOfText(rules.NewMatchingResult(baseRules, nil).BasicRule)})
				}
				return true
			})
			mu.Lock()
			multEvals += e
			mu.Unlock()
		})

		// --- engine layer
		engEvals = c08EngineLayer(x, c)

		c.Run.Sample(map[string]any{"rule": pool[3].text(), "badfilter_twin": pool[3].twin(1).text(), "other": pool[1].text(), "expected": "twin disables only the first rule"})
		c.Run.Sample(map[string]any{"base": []string{pool[0].text()}, "extras_with_twins": []string{pool[1].text(), pool[1].twin(1).text(), pool[7].text(), pool[7].twin(0).text()}})
		c.Run.Set("pool_size", int64(len(pool)))
		c.Run.Set("pair_evaluations", pairEvals)
		c.Run.Set("multiplicity_evaluations", multEvals)
		c.Run.Set("multiplicity_configurations", int64(len(jobs)))
		c.Run.Set("engine_evaluations", engEvals)
		c.Run.Set("evaluations", pairEvals+multEvals+engEvals)
		c.Run.Set("distinct_nontrivial", int64(len(pool)*len(pool)+len(jobs)))
		c.Run.Set("rule", fmt.Sprintf("unit layer: every ordered pair of %d structurally given rules x every badfilter position x both list orders; multiplicity layer: every base multiset (<=2 of 8) x every set of k<=%d extras (of 12) with twins in every distinct arrangement; engine layer through Engine/NetworkEngine/DNSEngine; distinct = pairs + multiplicity configurations, all non-trivial (a badfilter rule is present in each)", len(pool), kmax))
		c.Run.Set("exhaustive", exhaustive)
		c.Run.Assumption("twins keep the value order inside a modifier; $domain=a|b vs $domain=b|a,badfilter is not asserted either way")
	})
}

func renderNetText(r *rules.NetworkRule) string {
	if r == nil {
		return "<nil>"
	}
	return r.RuleText
}

func verdictOfText(r *rules.NetworkRule) string {
	if r == nil {
		return "none"
	}
	cl := 0
	imp := r.IsOptionEnabled(rules.OptionImportant)
	switch {
	case r.Whitelist && imp:
		cl = 3
	case imp:
		cl = 2
	case r.Whitelist:
		cl = 1
	}
	return fmt.Sprintf("class%d", cl)
}

// c08EngineLayer checks verdict invariance and pair selectivity through the
// real engines.
func c08EngineLayer(x *c08Ctx, c *Ctx) int64 {
	web := []srule{
		{false, c08P1, nil}, {false, c08P1, []string{"script"}}, {false, c08P1, []string{"third-party"}}, {false, c08P1, []string{"domain=src.org"}},
		{false, c08P1, []string{"important"}}, {true, c08P1, nil}, {false, c08P1, []string{"denyallow=x.com"}}, {false, c08P2, nil}, {false, c08P1, []string{"~image"}},
		{false, c08P3, nil}, {true, "||src.org^", []string{"urlblock"}}, // the latter matches the referrer only
	}
	// a rule just below 4 KiB whose twin is just above (lists are read line by line)
	if p := c08Pool(); strings.HasPrefix(p[len(p)-1].opts[0], "domain=src.org|pad") {
		web = append(web, p[len(p)-1])
	} else {
		panic(HarnessError("the long rule is not the last one of the pool"))
	}
	dns := []srule{
		{false, c08P1, nil}, {false, c08P1, []string{"important"}}, {true, c08P1, nil}, {false, c08P1, []string{"dnstype=A"}}, {false, c08P1, []string{"dnstype=~AAAA"}},
		{false, c08P1, []string{"ctag=pc"}}, {false, c08P1, []string{"client=10.0.0.1"}}, {false, c08P1, []string{"denyallow=x.com"}}, {false, c08P1, []string{"dnsrewrite=1.2.3.4"}},
		{false, c08P1, []string{"dnsrewrite"}}, {false, c08P1, []string{"dnsrewrite=REFUSED"}}, {true, c08P1, []string{"dnsrewrite"}}, {false, c08P3, nil},
	}
	dnsReq := scenDNSReq()
	byText := map[string]srule{}
	for _, s := range append(append([]srule{}, web...), dns...) {
		byText[s.text()] = s
	}
	var webVerdictOn func(lines []string, st *filterlist.RuleStorage) string
	webVerdict := func(lines []string) string {
		one := webVerdictOn(lines, stringStorage(joinLines(lines)+"\n"))
		// the same lines in a deployment-shaped storage (three lists, one of them comments only, ids not
		// ascending, no terminator after the last line; file-backed for every fourth case)
		h := 0
		for _, l := range lines {
			h += len(l)
		}
		st, release := deployStorage(lines, h%4 == 0)
		defer release()
		if dep := webVerdictOn(lines, st); dep != one {
			return "as one list: " + one + " -- spread over three lists (file-backed: " + fmt.Sprint(h%4 == 0) + "): " + dep
		}
		return one
	}
	webVerdictOn = func(lines []string, st *filterlist.RuleStorage) string {
		e := urlfilter.NewEngine(st)
		ne := urlfilter.NewNetworkEngine(st)
		var sb strings.Builder
		// a script request (every rule of the pool matches) and an image request
		// (some do not, so a badfilter rule can be the only rule that matches)
		for _, t := range []rules.RequestType{rules.TypeScript, rules.TypeImage} {
			req := rules.NewRequest("http://ads.example.com/x", "http://src.org/", t)
			m := e.MatchRequest(req)
			r2, _ := ne.Match(req)
			if isBad(m.BasicRule) || isBad(r2) || isBad(m.GetBasicResult()) {
				return "badfilter rule returned"
			}
			sb.WriteString("engine=" + verdictOf(m.GetBasicResult(), byText) + " netengine=" + verdictOf(r2, byText) + "; ")
		}
		return sb.String()
	}
	dnsVerdict := func(lines []string) string {
		return dnsVerdictOf(lines, byText, dnsReq) + " | with a hosts line: " + dnsVerdictOf(append([]string{"0.0.0.0 ads.example.com"}, lines...), byText, dnsReq)
	}
	var evals int64
	var mu sync.Mutex
	layer := func(name string, pool []srule, verdict func([]string) string) {
		// pair selectivity: [y, twin(x)] behaves as [y] unless identical
		c.parallel(len(pool), func(i int) {
			var e int64
			for j := range pool {
				sx, sy := pool[i], pool[j]
				if sx.ident() == sy.ident() {
					continue
				}
				want := verdict([]string{sy.text()})
				for _, lines := range [][]string{{sy.text(), sx.twin(len(sx.opts)).text()}, {sx.twin(0).text(), sy.text()}} {
					e++
					if got := verdict(lines); got != want {
						x.violate("engine-badfilter-affects-only-twins", map[string]any{"engine": name, "badfilter": sx.ident(), "rule": sy.ident()},
							fmt.Sprintf("%s: list %v gives %s, list [%s] alone gives %s", name, lines, got, sy.text(), want),
							map[string]any{"badfilter": sx.twin(len(sx.opts)).text(), "rule": sy.text()})
					}
				}
			}
			mu.Lock()
			evals += e
			mu.Unlock()
		})
		// verdict invariance under adding rules together with their twins
		var jobs [][2][]int
		for bsz := 0; bsz <= 2; bsz++ {
			enum.Combinations(len(pool), bsz, func(b []int) bool {
				for k := 1; k <= 2; k++ {
					enum.Combinations(len(pool), k, func(xs []int) bool {
						for _, xi := range xs {
							for _, bi := range b {
								if pool[xi].ident() == pool[bi].ident() {
									return true // the twin of an extra would disable a base rule as well
								}
							}
						}
						jobs = append(jobs, [2][]int{append([]int{}, b...), append([]int{}, xs...)})
						return true
					})
				}
				return true
			})
		}
		c.parallel(len(jobs), func(ji int) {
			b, xs := jobs[ji][0], jobs[ji][1]
			var base, pre, post []string
			for _, bi := range b {
				base = append(base, pool[bi].text())
			}
			for _, xi := range xs {
				pre = append(pre, pool[xi].twin(0).text(), pool[xi].text())
				post = append(post, pool[xi].text(), pool[xi].twin(len(pool[xi].opts)).text())
			}
			want := verdict(base)
			var e int64
			for _, lines := range [][]string{append(append([]string{}, pre...), base...), append(append([]string{}, base...), post...)} {
				e++
				if got := verdict(lines); got != want {
					x.violate("engine-twins-leave-verdict-unchanged", map[string]any{"engine": name, "base": base, "extras": len(xs), "lines": lines},
						fmt.Sprintf("%s: base %v gives %s; list %v gives %s", name, base, want, lines, got),
						map[string]any{"seq": lines, "base_verdict": ""})
				}
			}
			mu.Lock()
			evals += e
			mu.Unlock()
		})
	}
	// one twin disables every copy of its rule (the same text twice in the lists)
	copies := func(name string, pool []srule, verdict func([]string) string) {
		none := verdict(nil)
		for _, s := range pool {
			x, t := s.text(), s.twin(len(s.opts)).text()
			for _, lines := range [][]string{{x, x, t}, {x, t, x}, {t, x, x}} {
				mu.Lock()
				evals++
				mu.Unlock()
				if got := verdict(lines); got != none {
					x2 := x
					c.Run.Violate(ev.Violation{Pred: "engine-twins-leave-verdict-unchanged", Sig: map[string]any{"engine": name, "copies": x2},
						What:   fmt.Sprintf("%s: list %v gives %s, the empty list gives %s", name, lines, got, none),
						Replay: map[string]any{"seq": lines, "base_verdict": ""}})
					break
				}
			}
		}
	}
	// size: 9, 17 and 33 distinct rules with their twins (and one twin missing)
	for _, n := range []int{9, 17, 33} {
		var xs, ts []string
		for i := 0; i < n; i++ {
			s := srule{false, c08P1, []string{fmt.Sprintf("domain=src.org|d%02d.org", i), "script"}}
			xs = append(xs, s.text())
			ts = append([]string{s.twin(i % 3).text()}, ts...) // twins in reverse order, badfilter at varying positions
		}
		base := []string{srule{false, c08P1, nil}.text()}
		want := webVerdict(base)
		mu.Lock()
		evals += 2
		mu.Unlock()
		if got := webVerdict(append(append(append([]string{}, xs...), base...), ts...)); got != want {
			c.Run.Violate(ev.Violation{Pred: "engine-twins-leave-verdict-unchanged", Sig: map[string]any{"engine": "web", "pairs": n},
				What: fmt.Sprintf("web: %d rules with their twins around base %v give %s, the base alone gives %s", n, base, got, want), Replay: map[string]any{"seq": append(append(append([]string{}, xs...), base...), ts...), "base_verdict": ""}})
		}
		j := n / 2
		missing := append(append([]string{}, ts[:n-1-j]...), ts[n-j:]...) // the twin of xs[j] left out
		wantOne := webVerdict(append(append([]string{}, base...), xs[j]))
		if got := webVerdict(append(append(append([]string{}, xs...), base...), missing...)); got != wantOne {
			c.Run.Violate(ev.Violation{Pred: "engine-badfilter-affects-only-twins", Sig: map[string]any{"engine": "web", "pairs": n, "missing": j},
				What: fmt.Sprintf("web: %d rules, all but %q with their twins, around base %v give %s; base plus that rule gives %s", n, xs[j], base, got, wantOne), Replay: map[string]any{"seq": append(append(append([]string{}, xs...), base...), missing...), "base_verdict": ""}})
		}
	}
	layer("web", web, webVerdict)
	layer("dns", dns, dnsVerdict)
	copies("web", web, webVerdict)
	copies("dns", dns, dnsVerdict)
	return evals
}

func scenDNSReq() *urlfilter.DNSRequest {
	r := &urlfilter.DNSRequest{Hostname: "ads.example.com", DNSType: 1, ClientName: "laptop", SortedClientTags: []string{"pc"}}
	r.ClientIP = mustAddr("10.0.0.1")
	return r
}

// dnsVerdictOf renders the DNS verdict for a list: basic rule class, host rules and effective rewrites.
func dnsVerdictOf(lines []string, byText map[string]srule, dnsReq *urlfilter.DNSRequest) string {
	one := dnsVerdictOn(stringStorage(joinLines(lines)+"\n"), byText, dnsReq)
	h := 0
	for _, l := range lines {
		h += len(l)
	}
	st, release := deployStorage(lines, h%4 == 1)
	defer release()
	if dep := dnsVerdictOn(st, byText, dnsReq); dep != one {
		return "as one list: " + one + " -- spread over three lists (file-backed: " + fmt.Sprint(h%4 == 1) + "): " + dep
	}
	return one
}

func dnsVerdictOn(st *filterlist.RuleStorage, byText map[string]srule, dnsReq *urlfilter.DNSRequest) string {
	e := urlfilter.NewDNSEngine(st)
	// the name as resolvers send it, and the same name in the mixed-case spelling of a "0x20" query
	mixed := *dnsReq
	mixed.Hostname = strings.ToUpper(dnsReq.Hostname[:1]) + dnsReq.Hostname[1:]
	if i := strings.IndexByte(mixed.Hostname, '.'); i >= 0 && i+2 < len(mixed.Hostname) {
		mixed.Hostname = mixed.Hostname[:i+1] + strings.ToUpper(mixed.Hostname[i+1:i+2]) + mixed.Hostname[i+2:]
	}
	var out []string
	for _, rq := range []*urlfilter.DNSRequest{dnsReq, &mixed} {
		res, ok := e.MatchRequest(rq)
		if isBad(res.NetworkRule) {
			return "badfilter rule returned"
		}
		var rw, hosts []string
		for _, r := range res.DNSRewrites() {
			if isBad(r) {
				return "badfilter rewrite returned"
			}
			rw = append(rw, r.RuleText)
		}
		for _, h := range res.HostRulesV4 {
			hosts = append(hosts, h.RuleText)
		}
		out = append(out, fmt.Sprintf("%s: matched=%v rule=%s hosts=%v rewrites=%v", rq.Hostname, ok, verdictOf(res.NetworkRule, byText), hosts, rw))
	}
	return strings.Join(out, " / ")
}
