package props

import (
	"fmt"
	"strings"
	"sync"

	"github.com/AdguardTeam/urlfilter"
	"github.com/AdguardTeam/urlfilter/rules"

	"verif/enum"
	"verif/ev"
)

// C09 — effective DNS rewrites apply every matching exception, in any order.

// c09Value is a rewrite value as written and, independently of the parser, what
// it means: two values are the same rewrite iff their canonical forms are equal.
type c09Value struct{ text, canon string }

// c09CoreValues: the values of the core alphabet (explored one level deeper).
var c09CoreValues = []c09Value{
	{"1.1.1.1", "A|1.1.1.1"}, {"2.2.2.2", "A|2.2.2.2"}, {"::1", "AAAA|::1"}, {"new.example", "CNAME|new.example"}, {"other.example", "CNAME|other.example"},
	{"REFUSED", "RCODE|REFUSED"}, {"NXDOMAIN", "RCODE|NXDOMAIN"},
	{"NOERROR;TXT;hello", "TXT|hello"}, {"NOERROR;TXT;Hello", "TXT|Hello"}, {"NOERROR;MX;10 mx.example", "MX|10 mx.example"}, {"NOERROR;SRV;10 60 8080 srv.example", "SRV|10 60 8080 srv.example"},
	{"NOERROR;HTTPS;10 svc.example alpn=h2", "HTTPS|10 svc.example alpn=h2"},
}

// c09MoreValues: the same rewrites written the long way, an IPv4-mapped
// address in both spellings, and HTTPS values that differ in one parameter.
var c09MoreValues = []c09Value{
	{"NOERROR;A;1.1.1.1", "A|1.1.1.1"}, {"NOERROR;CNAME;new.example", "CNAME|new.example"},
	{"::ffff:1.2.3.4", "AAAA|::ffff:1.2.3.4"}, {"NOERROR;AAAA;::ffff:1.2.3.4", "AAAA|::ffff:1.2.3.4"},
	// text values with the field separator inside; a mixed-case CNAME target in both spellings
	{"NOERROR;TXT;v=1; k=a", "TXT|v=1; k=a"}, {"NOERROR;TXT;v=1; k=b", "TXT|v=1; k=b"},
	{"New.Example", "CNAME|New.Example"}, {"NOERROR;CNAME;New.Example", "CNAME|New.Example"},
	// a number written with a leading zero is the same number
	{"NOERROR;MX;010 mx.example", "MX|10 mx.example"},
	// a typed rewrite with an empty value is not the value-less one
	{"NOERROR;TXT;", "TXT|"},
	{"NOERROR;TXT;" + strings.Repeat("k", 255) + "1", "TXT|k255+1"}, {"NOERROR;TXT;" + strings.Repeat("k", 255) + "2", "TXT|k255+2"},
	// equal values, different record types
	{"NOERROR;SVCB;10 svc.example alpn=h2", "SVCB|10 svc.example alpn=h2"},
	{"NOERROR;PTR;ptr.example.", "PTR|ptr.example."}, {"NOERROR;TXT;ptr.example.", "TXT|ptr.example."},
	// record types the library has no value parser for: the type is kept, the value is not
	{"NOERROR;NS;ns1.example.", "NS|"}, {"NOERROR;CAA;0 issue ca.example", "CAA|"},
	// a parameter whose value is a list (its comma escaped in the rule)
	{"NOERROR;HTTPS;10 svc.example alpn=h3\\,h2", "HTTPS|10 svc.example alpn=h3,h2"},
	// same priority, target and parameter count; one has a flag parameter (empty value) the other lacks
	// a response code other than NOERROR written the long way: record type and value do not take part
	{"REFUSED;A;", "RCODE|REFUSED"}, {"REFUSED;;", "RCODE|REFUSED"}, {"NXDOMAIN;TXT;x", "RCODE|NXDOMAIN"},
	{"NOERROR;HTTPS;10 svc.example alpn=h2 no-default-alpn=", "HTTPS|10 svc.example alpn=h2 no-default-alpn="}, {"NOERROR;HTTPS;10 svc.example alpn=h2 port=8443", "HTTPS|10 svc.example alpn=h2 port=8443"},
}

type c09Sym struct {
	exc, imp bool
	canon    string // "" = value-less
}

var c09Syms = map[string]c09Sym{}

func c09Texts(vals []c09Value) (texts []string) {
	for _, v := range vals {
		for _, exc := range []bool{false, true} {
			for _, imp := range []bool{false, true} {
				t := "||example.org^$dnsrewrite=" + v.text
				if imp {
					t += ",important"
				}
				if exc {
					t = "@@" + t
				}
				texts = append(texts, t)
				c09Syms[t] = c09Sym{exc, imp, v.canon}
			}
		}
	}
	return texts
}

// c09Alphabet returns rule texts: value x important x exception, the two
// empty-valued exceptions and the empty-valued non-exception rewrite.  The
// first nCore of them are the core alphabet.
func c09Alphabet() (texts []string, nCore int) {
	texts = c09Texts(c09CoreValues)
	texts = append(texts, "@@||example.org^$dnsrewrite", "@@||example.org^$dnsrewrite,important", "||example.org^$dnsrewrite")
	c09Syms["@@||example.org^$dnsrewrite"] = c09Sym{true, false, ""}
	c09Syms["@@||example.org^$dnsrewrite,important"] = c09Sym{true, true, ""}
	c09Syms["||example.org^$dnsrewrite"] = c09Sym{false, false, ""}
	nCore = len(texts)
	texts = append(texts, c09Texts(c09MoreValues)...)
	// two different targets whose texts have equal 32-bit hashes
	hA, hB := enum.CollidingHosts()
	texts = append(texts, c09Texts([]c09Value{{hA, "CNAME|" + hA}, {hB, "CNAME|" + hB}})...)
	return texts, nCore
}

// c09SubAlphabet is the 14-symbol alphabet for the long sequences.
func c09SubAlphabet() []string {
	return []string{
		"||example.org^$dnsrewrite=1.1.1.1",
		"||example.org^$dnsrewrite=1.1.1.1,important",
		"@@||example.org^$dnsrewrite=1.1.1.1",
		"@@||example.org^$dnsrewrite=1.1.1.1,important",
		"||example.org^$dnsrewrite=new.example",
		"@@||example.org^$dnsrewrite=new.example",
		"||example.org^$dnsrewrite=REFUSED",
		"@@||example.org^$dnsrewrite=REFUSED",
		"||example.org^$dnsrewrite=NOERROR;MX;10 mx.example",
		"@@||example.org^$dnsrewrite=NOERROR;MX;10 mx.example",
		"@@||example.org^$dnsrewrite",
		"@@||example.org^$dnsrewrite,important",
		"||example.org^$dnsrewrite=2.2.2.2",
		"@@||example.org^$dnsrewrite=NOERROR;HTTPS;10 svc.example alpn=h2",
	}
}

// c09Disables: does exception e disable rewrite r?  Decided on the rules as
// written (the canonical forms of the alphabet), not on the parsed values.
func c09Disables(e, r *rules.NetworkRule) bool {
	es, ok1 := c09Syms[e.RuleText]
	rs, ok2 := c09Syms[r.RuleText]
	if !ok1 || !ok2 {
		panic(HarnessError("rule outside the rewrite alphabet: " + e.RuleText + " / " + r.RuleText))
	}
	if es.canon == "" {
		return es.imp || !rs.imp
	}
	if !es.imp && rs.imp {
		return false
	}
	return es.canon == rs.canon
}

// c09Reference filters a sequence of rules the way the property states.
func c09Reference(seq []*rules.NetworkRule) (out []*rules.NetworkRule) {
	var excs []*rules.NetworkRule
	for _, r := range seq {
		if r.DNSRewrite != nil && r.Whitelist {
			excs = append(excs, r)
		}
	}
next:
	for _, r := range seq {
		if r.DNSRewrite == nil || r.Whitelist {
			continue
		}
		for _, e := range excs {
			if c09Disables(e, r) {
				continue next
			}
		}
		out = append(out, r)
	}
	return out
}

// c09RenderRewrite writes a parsed rewrite out with the values behind its pointers.
func c09RenderRewrite(d *rules.DNSRewrite) string {
	val := fmt.Sprintf("%T %+v", d.Value, d.Value)
	switch v := d.Value.(type) {
	case *rules.DNSSVCB:
		if v != nil {
			val = fmt.Sprintf("SVCB %+v", *v)
		}
	case *rules.DNSMX:
		if v != nil {
			val = fmt.Sprintf("MX %+v", *v)
		}
	case *rules.DNSSRV:
		if v != nil {
			val = fmt.Sprintf("SRV %+v", *v)
		}
	}
	return fmt.Sprintf("rcode=%d type=%d cname=%q value=%s", d.RCode, d.RRType, d.NewCNAME, val)
}

func c09CheckSeq(c *Ctx, seq []*rules.NetworkRule) bool {
	res := &urlfilter.DNSResult{NetworkRules: append([]*rules.NetworkRule{}, seq...)}
	var got, got2 []*rules.NetworkRule
	var firstTexts []string
	values := make([]string, len(seq))
	snapshot := len(seq) <= 3
	for i, r := range seq {
		if snapshot && r.DNSRewrite != nil {
			values[i] = c09RenderRewrite(r.DNSRewrite)
		}
	}
	if p := protect(func() {
		got = res.DNSRewrites()
		firstTexts = netTexts(got)
		// what the caller does with the returned list is the caller's business: a second call answers afresh
		for i := range got {
			got[i] = nil
		}
		got2 = res.DNSRewrites()
		got = got2
		for i, t := range firstTexts {
			if i >= len(got2) || got2[i] == nil || got2[i].RuleText != t {
				got = nil
			}
		}
		if len(got2) != len(firstTexts) {
			got = nil
		}
		if got == nil && len(firstTexts) > 0 {
			panic(fmt.Sprintf("DNSRewrites() returned %v; after the caller cleared that list, a second call returns %v", firstTexts, netTextsSafe(got2)))
		}
		_ = res.DNSRewritesAll()
		got2 = res.DNSRewrites()
	}); p != nil {
		c.Run.Violate(ev.Violation{Pred: "no-crash", Sig: map[string]any{"seq": netTexts(seq)}, What: fmt.Sprintf("DNSRewrites panics on %v: %v", netTexts(seq), p), Replay: map[string]any{"seq": netTexts(seq)}})
		return false
	}
	want := c09Reference(seq)
	ok := true
	bad := func(pred, what string) {
		ok = false
		c.Run.Violate(ev.Violation{Pred: pred, Sig: map[string]any{"seq": netTexts(seq)}, What: what, Replay: map[string]any{"seq": netTexts(seq)}})
	}
	if !eqStrings(netTexts(got), netTexts(want)) {
		bad("rewrites-equal-reference-filter", fmt.Sprintf("DNSRewrites(%v) = %v, expected %v", netTexts(seq), netTexts(got), netTexts(want)))
	} else if !eqStrings(netTexts(got), netTexts(got2)) {
		bad("rewrites-idempotent", fmt.Sprintf("second DNSRewrites() call on %v gives %v, first gave %v", netTexts(seq), netTexts(got2), netTexts(got)))
	}
	for i := range seq {
		if len(res.NetworkRules) != len(seq) || res.NetworkRules[i] != seq[i] {
			bad("result-unchanged", fmt.Sprintf("DNSRewrites changed NetworkRules of the result for %v", netTexts(seq)))
			break
		}
		if snapshot && seq[i].DNSRewrite != nil && c09RenderRewrite(seq[i].DNSRewrite) != values[i] {
			bad("result-unchanged", fmt.Sprintf("DNSRewrites over %v changed the parsed value of rule %q: it was %s, it is %s", netTexts(seq), seq[i].RuleText, values[i], c09RenderRewrite(seq[i].DNSRewrite)))
			break
		}
	}
	return ok
}

func init() {
	register("C09", "exploration", func(c *Ctx) {
		alpha, nCore := c09Alphabet()
		parsed := map[string]*rules.NetworkRule{}
		get := func(t string) *rules.NetworkRule {
			if r, ok := parsed[t]; ok {
				return r
			}
			r := mustNetRule(t, 1)
			if r.DNSRewrite == nil {
				panic(HarnessError("alphabet rule without rewrite: " + t))
			}
			parsed[t] = r
			return r
		}
		for _, t := range alpha {
			get(t)
		}
		for _, t := range c09SubAlphabet() {
			get(t)
		}
		if c.Replay != nil {
			var seq []*rules.NetworkRule
			for _, t := range c.Replay["seq"].([]any) {
				// distinct objects per position, as an engine would produce
				seq = append(seq, mustNetRule(t.(string), 1))
			}
			c09CheckSeq(c, seq)
			return
		}
		maxLen, subLen := 4, 6
		if c.Thorough() {
			maxLen, subLen = 5, 7
		}
		rulesA := make([]*rules.NetworkRule, len(alpha))
		for i, t := range alpha {
			// list ids in no particular order along the alphabet: where a rule comes from takes no part in the filter
			get(t)
			rulesA[i] = mustNetRule(t, []int{5, 1, 9, 3, 7, 2, 8}[i%7])
		}
		var mu sync.Mutex
		var evals, nontrivial int64
		exhaustive := true
		// layer 1: all sequences of length 0..maxLen over the core alphabet and of
		// length 0..maxLen-1 over the full one, split by first symbol
		for _, pass := range [][2]int{{nCore, maxLen}, {len(alpha), maxLen - 1}} {
			k, maxLen := pass[0], pass[1]
			c.parallel(k+1, func(first int) {
				var le, ln int64
				// every worker owns its rule objects: an evaluation that writes to a rule must not turn into a
				// data race of the harness (the value snapshots in c09CheckSeq report the write)
				rulesA := make([]*rules.NetworkRule, len(alpha))
				for i, t := range alpha {
					rulesA[i] = mustNetRule(t, []int{5, 1, 9, 3, 7, 2, 8}[i%7])
				}
				run := func(seq []*rules.NetworkRule) {
					le++
					hasExc, hasRw := false, false
					for _, r := range seq {
						if r.Whitelist {
							hasExc = true
						} else {
							hasRw = true
						}
					}
					if hasExc && hasRw {
						ln++
					}
					c09CheckSeq(c, seq)
				}
				if first == k {
					run(nil)
				} else {
					for l := 0; l < maxLen; l++ {
						if c.Expired() {
							mu.Lock()
							exhaustive = false
							mu.Unlock()
							break
						}
						enum.Sequences(k, l, func(s []int) bool {
							seq := make([]*rules.NetworkRule, 0, l+1)
							seq = append(seq, rulesA[first])
							for _, i := range s {
								seq = append(seq, rulesA[i])
							}
							run(seq)
							return true
						})
					}
				}
				mu.Lock()
				evals += le
				nontrivial += ln
				mu.Unlock()
			})
		}
		// size layer: 9, 17 and 33 rewrites with exceptions for the first, a middle
		// and the last one (and an important exception, and the value-less one),
		// placed before, after and between them
		for _, n := range []int{9, 17, 33} {
			mk := func(i int, exc, imp bool) *rules.NetworkRule {
				t := fmt.Sprintf("||example.org^$dnsrewrite=10.0.%d.%d", n, i)
				if imp {
					t += ",important"
				}
				if exc {
					t = "@@" + t
				}
				c09Syms[t] = c09Sym{exc, imp, fmt.Sprintf("A|10.0.%d.%d", n, i)}
				return mustNetRule(t, 1)
			}
			var rws []*rules.NetworkRule
			for i := 0; i < n; i++ {
				rws = append(rws, mk(i, false, i%5 == 2))
			}
			excSets := [][]*rules.NetworkRule{
				{mk(0, true, false), mk(n/2, true, false), mk(n-1, true, false)},
				{mk(2, true, true), mk(n-1, true, false), mk(n-2, true, false), mk(n-3, true, false)},
				{get("@@||example.org^$dnsrewrite"), mk(2, true, false)},
				{get("@@||example.org^$dnsrewrite,important")},
			}
			for _, es := range excSets {
				for place := 0; place < 3; place++ {
					var seq []*rules.NetworkRule
					switch place {
					case 0:
						seq = append(append(seq, es...), rws...)
					case 1:
						seq = append(append(seq, rws...), es...)
					default:
						for i, r := range rws {
							seq = append(seq, r)
							if i < len(es) {
								seq = append(seq, es[i])
							}
						}
					}
					evals++
					c09CheckSeq(c, seq)
				}
			}
		}
		// layer 2: longer sequences over the 14-symbol sub-alphabet
		sub := c09SubAlphabet()
		rulesS := make([]*rules.NetworkRule, len(sub))
		for i, t := range sub {
			rulesS[i] = get(t)
		}
		ks := len(sub)
		c.parallel(ks*ks, func(ab int) {
			var le, ln int64
			for l := maxLen + 1; l <= subLen; l++ {
				if c.Expired() {
					mu.Lock()
					exhaustive = false
					mu.Unlock()
					break
				}
				enum.Sequences(ks, l-2, func(s []int) bool {
					seq := make([]*rules.NetworkRule, 0, l)
					seq = append(seq, rulesS[ab/ks], rulesS[ab%ks])
					for _, i := range s {
						seq = append(seq, rulesS[i])
					}
					le++
					hasExc, hasRw := false, false
					for _, r := range seq {
						if r.Whitelist {
							hasExc = true
						} else {
							hasRw = true
						}
					}
					if hasExc && hasRw {
						ln++
					}
					c09CheckSeq(c, seq)
					return true
				})
			}
			mu.Lock()
			evals += le
			nontrivial += ln
			mu.Unlock()
		})
		// layer 3: through the real DNS engine (list text -> MatchRequest)
		engLen := 3
		if c.Thorough() {
			engLen = 4
		}
		engAlpha := append([]string{}, sub...)
		var engEvals int64
		c.parallel(len(engAlpha), func(first int) {
			var le int64
			for l := 0; l < engLen; l++ {
				enum.Sequences(len(engAlpha), l, func(s []int) bool {
					lines := []string{engAlpha[first]}
					for _, i := range s {
						lines = append(lines, engAlpha[i])
					}
					le++
					e := urlfilter.NewDNSEngine(stringStorage(strings.Join(lines, "\n") + "\n"))
					res, _ := e.MatchRequest(&urlfilter.DNSRequest{Hostname: "example.org", DNSType: 1})
					// the same lines spread over three lists (ids not ascending, one list of comments only; file-backed for every fourth case)
					{
						dst, release := deployStorage(lines, le%4 == 0)
						dres, _ := urlfilter.NewDNSEngine(dst).Match("example.org")
						if len(dres.NetworkRules) != len(lines) {
							c.Run.Violate(ev.Violation{Pred: "engine-returns-all-rewrite-rules", Sig: map[string]any{"lines": lines, "storage": "three lists"},
								What: fmt.Sprintf("DNSEngine over %v spread over three lists (file-backed: %v) returned %v", lines, le%4 == 0, netTexts(dres.NetworkRules)), Replay: map[string]any{"seq": lines}})
						} else {
							c09CheckSeq(c, dres.NetworkRules)
						}
						release()
					}
					if len(res.NetworkRules) != len(lines) {
						c.Run.Violate(ev.Violation{Pred: "engine-returns-all-rewrite-rules", Sig: map[string]any{"lines": lines},
							What: fmt.Sprintf("DNSEngine over %v returned %v", lines, netTexts(res.NetworkRules)), Replay: map[string]any{"seq": lines}})
						return true
					}
					c09CheckSeq(c, res.NetworkRules)
					// the outcome, as a set, does not depend on the order the engine produced
					var in []*rules.NetworkRule
					for _, t := range lines {
						in = append(in, get(t))
					}
					if !eqStrings(sortedSet(netTexts(res.DNSRewrites())), sortedSet(netTexts(c09Reference(in)))) {
						c.Run.Violate(ev.Violation{Pred: "engine-rewrites-equal-reference", Sig: map[string]any{"lines": lines},
							What: fmt.Sprintf("DNSEngine over %v: effective rewrites %v, expected set %v", lines, netTexts(res.DNSRewrites()), netTexts(c09Reference(in))), Replay: map[string]any{"seq": lines}})
					}
					return true
				})
			}
			mu.Lock()
			engEvals += le
			mu.Unlock()
		})
		c.Run.Sample(map[string]any{"sequence": []string{alpha[0], alpha[2], alpha[len(alpha)-3]}, "expected": netTexts(c09Reference([]*rules.NetworkRule{rulesA[0], rulesA[2], rulesA[len(alpha)-3]}))})
		c.Run.Sample(map[string]any{"sequence": []string{sub[8], sub[9], sub[0]}, "expected": netTexts(c09Reference([]*rules.NetworkRule{rulesS[8], rulesS[9], rulesS[0]}))})
		c.Run.Set("evaluations", evals+engEvals)
		c.Run.Set("engine_evaluations", engEvals)
		c.Run.Set("distinct_nontrivial", nontrivial)
		c.Run.Set("alphabet_size", int64(len(alpha)))
		c.Run.Set("max_len_full_alphabet", int64(maxLen))
		c.Run.Set("max_len_sub_alphabet", int64(subLen))
		c.Run.Set("rule", fmt.Sprintf("every sequence of length 0..%d over the %d core rewrite symbols (value x important x exception, empty-valued exceptions) and of length 0..%d over all %d symbols (the same rewrites written the long way, an IPv4-mapped address in both spellings, HTTPS values differing in one parameter), every sequence of length %d..%d over a 14-symbol sub-alphabet, and every sequence of length 1..%d of the sub-alphabet through DNSEngine.MatchRequest; 'same rewrite' is decided on the values as written, not on the parsed fields; non-trivial = contains both an exception and a rewrite", maxLen, nCore, maxLen-1, len(alpha), maxLen+1, subLen, engLen))
		c.Run.Set("exhaustive", exhaustive)
		c.Run.Assumption("the parsed DNSRewrite values are taken from the rule parser (their shape is property C10)")
	})
}
