package props

import (
	"fmt"
	"net/netip"
	"reflect"
	"strings"
	"sync"

	"github.com/AdguardTeam/urlfilter"
	"github.com/AdguardTeam/urlfilter/rules"
	"github.com/miekg/dns"

	"verif/enum"
	"verif/ev"
)

// C10 — parsed $dnsrewrite values always have the published shape.

var c10Tokens = []string{
	"NOERROR", "SERVFAIL", "NXDOMAIN", "REFUSED", "noerror", "refused", "BADKEYWORD", "FORMERR",
	"A", "AAAA", "CNAME", "MX", "PTR", "TXT", "HTTPS", "SVCB", "SRV", "NS", "none", "reserved", "XYZ", "a", "ptr",
	";", " ", ".", "=", "\\,", ",important", // (the last one ends the value: another modifier follows)
	"0", "10", "65535", "65536", "-1", "1e3",
	"1.2.3.4", "::1", "::ffff:1.2.3.4", "[::1]", "1.2.3",
	"example.org", "a-", "-a", "example.org.", strings.Repeat("x", 64), "alpn=h2", "",
}

// c10Shape returns "" if d satisfies the published contract.
func c10Shape(d *rules.DNSRewrite) string {
	if d == nil {
		return "nil rewrite"
	}
	if d.NewCNAME != "" {
		if d.RCode != 0 || d.RRType != 0 || d.Value != nil {
			return "a new-CNAME rewrite carries other fields"
		}
		return ""
	}
	if d.RCode != dns.RcodeSuccess {
		if d.RRType != 0 || d.Value != nil {
			return "record type or value present with a non-success response code"
		}
		return ""
	}
	switch d.RRType {
	case dns.TypeA:
		ip, ok := d.Value.(netip.Addr)
		if !ok || !ip.Is4() {
			return fmt.Sprintf("A value is %T %v, not an IPv4 address", d.Value, d.Value)
		}
	case dns.TypeAAAA:
		ip, ok := d.Value.(netip.Addr)
		if !ok || !ip.Is6() {
			return fmt.Sprintf("AAAA value is %T %v, not an IPv6 address", d.Value, d.Value)
		}
	case dns.TypeMX:
		v, ok := d.Value.(*rules.DNSMX)
		if !ok || v == nil {
			return fmt.Sprintf("MX value is %T", d.Value)
		}
	case dns.TypeSRV:
		v, ok := d.Value.(*rules.DNSSRV)
		if !ok || v == nil {
			return fmt.Sprintf("SRV value is %T", d.Value)
		}
	case dns.TypeHTTPS, dns.TypeSVCB:
		v, ok := d.Value.(*rules.DNSSVCB)
		if !ok || v == nil {
			return fmt.Sprintf("HTTPS/SVCB value is %T", d.Value)
		}
	case dns.TypePTR:
		v, ok := d.Value.(string)
		if !ok || !strings.HasSuffix(v, ".") || len(v) < 2 || strings.Contains(v, "..") {
			return fmt.Sprintf("PTR value is %T %q, not a fully-qualified name", d.Value, d.Value)
		}
	case dns.TypeTXT:
		if _, ok := d.Value.(string); !ok {
			return fmt.Sprintf("TXT value is %T", d.Value)
		}
	default:
		if d.Value != nil {
			return fmt.Sprintf("value %T present for record type %d", d.Value, d.RRType)
		}
	}
	return ""
}

// c10Echo returns "" if the accepted rewrite d carries the value that is written
// in the long form "NOERROR;TYPE;value" (numbers read in base ten; nothing is
// claimed for a number that is not written as plain decimal digits).
func c10Echo(v string, d *rules.DNSRewrite) string {
	// a comma inside a modifier value is written "\," (the rule syntax documents the escape); the value is what is left
	v = strings.ReplaceAll(v, "\\,", ",")
	parts := strings.SplitN(v, ";", 3)
	if len(parts) != 3 || !strings.EqualFold(parts[0], "NOERROR") || d == nil || d.RCode != dns.RcodeSuccess {
		return ""
	}
	val := parts[2]
	num := func(s string) (uint16, bool) {
		if s == "" {
			return 0, false
		}
		n := 0
		for _, ch := range s {
			if ch < '0' || ch > '9' {
				return 0, false
			}
			if n = n*10 + int(ch-'0'); n > 65535 {
				return 0, false
			}
		}
		return uint16(n), true
	}
	fields := strings.Split(val, " ")
	switch x := d.Value.(type) {
	case netip.Addr:
		if a, err := netip.ParseAddr(val); err != nil || a != x {
			return fmt.Sprintf("address value %v for the written %q", x, val)
		}
	case string:
		if d.RRType == dns.TypeTXT && x != val {
			return fmt.Sprintf("TXT value %q for the written %q", x, val)
		}
		if d.RRType == dns.TypePTR && x != val && x != val+"." { // a missing final dot is added
			return fmt.Sprintf("PTR value %q for the written %q", x, val)
		}
	case *rules.DNSMX:
		if len(fields) == 2 {
			n, ok := num(fields[0])
			if !ok {
				return fmt.Sprintf("MX preference %q is not a decimal number up to 65535, yet the value is accepted (as %d)", fields[0], x.Preference)
			}
			if x.Preference != n || x.Exchange != fields[1] {
				return fmt.Sprintf("MX value {%d %q} for the written %q", x.Preference, x.Exchange, val)
			}
		}
	case *rules.DNSSRV:
		if len(fields) == 4 {
			a, ok1 := num(fields[0])
			b, ok2 := num(fields[1])
			p, ok3 := num(fields[2])
			if !ok1 || !ok2 || !ok3 {
				return fmt.Sprintf("an SRV number in %q is not a decimal number up to 65535, yet the value is accepted", val)
			}
			if ok1 && ok2 && ok3 && (x.Priority != a || x.Weight != b || x.Port != p || x.Target != fields[3]) {
				return fmt.Sprintf("SRV value {%d %d %d %q} for the written %q", x.Priority, x.Weight, x.Port, x.Target, val)
			}
		}
	case *rules.DNSSVCB:
		if len(fields) >= 2 {
			n, ok := num(fields[0])
			if !ok {
				return fmt.Sprintf("HTTPS/SVCB priority %q is not a decimal number up to 65535, yet the value is accepted (as %d)", fields[0], x.Priority)
			}
			if x.Priority != n || x.Target != fields[1] {
				return fmt.Sprintf("HTTPS/SVCB value {%d %q} for the written %q", x.Priority, x.Target, val)
			}
			// every written parameter is reproduced: key=value with the value as
			// written, or without the double quotes around it; the last one of a
			// repeated key stands
			written := map[string]string{}
			for _, f := range fields[2:] {
				if strings.Count(f, "=") != 1 {
					return fmt.Sprintf("HTTPS/SVCB parameter %q is not of the form key=value, yet the value is accepted", f)
				}
				k, v, _ := strings.Cut(f, "=")
				written[k] = v
			}
			for k, wv := range written {
				v, ok := x.Params[k]
				unq := wv
				if len(unq) >= 2 && unq[0] == '"' && unq[len(unq)-1] == '"' {
					unq = unq[1 : len(unq)-1]
				}
				if !ok || (v != wv && v != unq) {
					return fmt.Sprintf("HTTPS/SVCB parameter %s=%s read as %q=%q", k, wv, k, v)
				}
			}
			if len(written) != len(x.Params) {
				return fmt.Sprintf("HTTPS/SVCB value has %d parameters for the %d written in %q", len(x.Params), len(written), val)
			}
		}
	}
	return ""
}

// c10RefClass classifies a value text by the documented grammar: "error",
// "empty", "rcode:N", "cname?" (a host name: accepted as a new CNAME or rejected),
// "rr:T" (typed value, record type T; the value itself may still be rejected,
// hence "rr:T?"), or "" when the text contains option-level escapes the
// reference does not model.
func c10RefClass(v string) string {
	if strings.ContainsAny(v, "\\,$") {
		return ""
	}
	parts := strings.SplitN(v, ";", 3)
	switch len(parts) {
	case 1:
		if v == "" {
			return "empty"
		}
		upper := true
		for _, r := range v {
			if r < 'A' || r > 'Z' {
				upper = false
			}
		}
		if upper {
			switch v {
			case "NOERROR":
				return "empty" // response code 0 and nothing else
			case "SERVFAIL", "NXDOMAIN", "REFUSED":
				return fmt.Sprintf("rcode:%d", dns.StringToRcode[v])
			}
			return "error"
		}
		if ip, err := netip.ParseAddr(v); err == nil {
			if ip.Is4() {
				return "rr:1?"
			}
			return "rr:28?"
		}
		return "cname?"
	case 2:
		return "error"
	}
	rcode, ok := dns.StringToRcode[strings.ToUpper(parts[0])]
	if !ok {
		return "error"
	}
	if rcode != dns.RcodeSuccess {
		return fmt.Sprintf("rcode:%d", rcode)
	}
	if parts[1] == "" && parts[2] == "" {
		return "empty"
	}
	if strings.EqualFold(parts[1], "none") || strings.EqualFold(parts[1], "reserved") {
		return "error"
	}
	rr, ok := dns.StringToType[strings.ToUpper(parts[1])]
	if !ok {
		return "error"
	}
	if rr == dns.TypeCNAME {
		return "cname?"
	}
	return fmt.Sprintf("rr:%d?", rr)
}

// c10GotClass classifies a parse result the same way.
func c10GotClass(d *rules.DNSRewrite, err error) string {
	switch {
	case err != nil || d == nil:
		return "error"
	case d.NewCNAME != "":
		return "cname"
	case d.RCode != 0:
		return fmt.Sprintf("rcode:%d", d.RCode)
	case d.RRType != 0:
		return fmt.Sprintf("rr:%d", d.RRType)
	}
	return "empty"
}

func c10ClassAgrees(want, got string) bool {
	if want == "" {
		return true
	}
	if strings.HasSuffix(want, "?") {
		return got == "error" || got == strings.TrimSuffix(want, "?")
	}
	return want == got
}

// c10UnescapedComma returns the position of the first comma of v that is not
// escaped with a backslash, or -1.
func c10UnescapedComma(v string) int {
	for i := 0; i < len(v); i++ {
		if v[i] == ',' && (i == 0 || v[i-1] != '\\') {
			return i
		}
	}
	return -1
}

// c10ValueOf returns the part of v that is the value of the modifier: an
// unescaped comma ends it (what follows are further modifiers).
func c10ValueOf(v string) string {
	if cut := c10UnescapedComma(v); cut >= 0 {
		return v[:cut]
	}
	return v
}

func c10Check(c *Ctx, v string) (accepted bool) {
	text := "||h.test^$dnsrewrite=" + v
	var r1, r2 *rules.NetworkRule
	var e1, e2 error
	if p := protect(func() {
		r1, e1 = rules.NewNetworkRule(text, 1)
		r2, e2 = rules.NewNetworkRule(text, 1)
	}); p != nil {
		c.Run.Violate(ev.Violation{Pred: "no-crash", Sig: map[string]any{"value": v}, What: fmt.Sprintf("parsing %q panics: %v", text, p), Replay: map[string]any{"value": v}})
		return false
	}
	// a value that is followed by further modifiers (an unescaped comma ends it): if the value alone is
	// rejected, the rule with more modifiers behind it is rejected as well
	if cut := c10UnescapedComma(v); cut >= 0 && e1 == nil {
		if _, eAlone := rules.NewNetworkRule("||h.test^$dnsrewrite="+v[:cut], 1); eAlone != nil {
			c.Run.Violate(ev.Violation{Pred: "malformed-value-is-rejected", Sig: map[string]any{"value": v},
				What: fmt.Sprintf("%q is accepted although its $dnsrewrite value alone, %q, is rejected: %v", text, v[:cut], eAlone), Replay: map[string]any{"value": v}})
		}
	}
	// the same value on an exception rule, and through the line parser: accepted or rejected alike, with the same value
	if v != "" {
		var r3 *rules.NetworkRule
		var r4 rules.Rule
		var e3, e4 error
		if p := protect(func() {
			r3, e3 = rules.NewNetworkRule("@@"+text, 1)
			r4, e4 = rules.NewRule(text, 1)
		}); p != nil {
			c.Run.Violate(ev.Violation{Pred: "no-crash", Sig: map[string]any{"value": v, "route": "exception / NewRule"}, What: fmt.Sprintf("parsing %q as an exception rule or through NewRule panics: %v", text, p), Replay: map[string]any{"value": v}})
			return false
		}
		n4, isNet := r4.(*rules.NetworkRule)
		okA, okB, okC := e1 == nil && r1 != nil, e3 == nil && r3 != nil, e4 == nil && n4 != nil
		if text != strings.TrimSpace(text) || (r4 != nil && !isNet) {
			// the line parser trims the line, and it may read the line as something else than a network rule: not comparable
			n4, okC = r1, okA
		}
		if okA != okB || okA != okC || (okA && (!reflect.DeepEqual(r1.DNSRewrite, r3.DNSRewrite) || !reflect.DeepEqual(r1.DNSRewrite, n4.DNSRewrite))) {
			show := func(r *rules.NetworkRule, err error) string {
				if err != nil || r == nil {
					return fmt.Sprintf("rejected (%v)", err)
				}
				if r.DNSRewrite == nil {
					return "accepted without a rewrite"
				}
				return fmt.Sprintf("accepted with %+v", *r.DNSRewrite)
			}
			c.Run.Violate(ev.Violation{Pred: "same-value-on-every-route", Sig: map[string]any{"value": v},
				What: fmt.Sprintf("value %q: NewNetworkRule on a blocking rule: %s; on the exception rule: %s; NewRule on the blocking rule: %s", v, show(r1, e1), show(r3, e3), show(n4, e4)), Replay: map[string]any{"value": v}})
		}
	}
	// the class of the result is a function of the text alone (whatever was parsed before)
	{
		var d *rules.DNSRewrite
		if r1 != nil {
			d = r1.DNSRewrite
		}
		// (with further modifiers behind the value a rejection may be theirs: the class is then judged on accepted rules only)
		if want, got := c10RefClass(c10ValueOf(v)), c10GotClass(d, e1); (c10UnescapedComma(v) >= 0 && e1 != nil) {
			// nothing to compare
		} else if !(r1 != nil && e1 == nil && d == nil) && !c10ClassAgrees(want, got) {
			c.Run.Violate(ev.Violation{Pred: "class-determined-by-text", Sig: map[string]any{"value": v},
				What: fmt.Sprintf("%q parses as %s (%+v, err %v), the documented grammar says %s", text, got, d, e1, want), Replay: map[string]any{"value": v}})
		}
	}
	if (e1 == nil) != (e2 == nil) {
		c.Run.Violate(ev.Violation{Pred: "deterministic", Sig: map[string]any{"value": v}, What: fmt.Sprintf("parsing %q twice: %v vs %v", text, e1, e2), Replay: map[string]any{"value": v}})
		return false
	}
	if e1 != nil {
		if r1 != nil {
			c.Run.Violate(ev.Violation{Pred: "error-xor-rule", Sig: map[string]any{"value": v}, What: fmt.Sprintf("parsing %q returns both a rule and error %v", text, e1), Replay: map[string]any{"value": v}})
		}
		return false
	}
	if r1.DNSRewrite == nil {
		// the value never reached the modifier (e.g. it was split off as another option that parsed)
		return false
	}
	if why := c10Shape(r1.DNSRewrite); why != "" {
		c.Run.Violate(ev.Violation{Pred: "published-shape", Sig: map[string]any{"value": v}, What: fmt.Sprintf("%q accepted with rewrite %+v: %s", text, *r1.DNSRewrite, why), Replay: map[string]any{"value": v}})
	}
	if d := r1.DNSRewrite; d.NewCNAME != "" {
		for i := 0; i < len(d.NewCNAME); i++ {
			if ch := d.NewCNAME[i]; !(ch >= 'a' && ch <= 'z' || ch >= 'A' && ch <= 'Z' || ch >= '0' && ch <= '9' || ch == '-' || ch == '.') {
				c.Run.Violate(ev.Violation{Pred: "published-shape", Sig: map[string]any{"value": v}, What: fmt.Sprintf("%q accepted as a new CNAME %q, which is not a host name (byte 0x%02x)", text, d.NewCNAME, ch), Replay: map[string]any{"value": v}})
				break
			}
		}
	}
	if why := c10Echo(c10ValueOf(v), r1.DNSRewrite); why != "" {
		c.Run.Violate(ev.Violation{Pred: "value-equals-written-value", Sig: map[string]any{"value": v}, What: fmt.Sprintf("%q accepted with %s", text, why), Replay: map[string]any{"value": v}})
	}
	// the value stays what was parsed while the rule is used: evaluated together with an exception for the
	// same value and one for another value
	if p := protect(func() {
		lst := []*rules.NetworkRule{r1}
		for _, t := range []string{"@@" + text, "@@||h.test^$dnsrewrite=NOERROR;PTR;other.example.net.", "@@||h.test^$dnsrewrite=other.example.net"} {
			if x, err := rules.NewNetworkRule(t, 1); err == nil && x != nil {
				lst = append(lst, x)
			}
		}
		res := &urlfilter.DNSResult{NetworkRules: lst}
		res.DNSRewrites()
		res.DNSRewritesAll()
		res.DNSRewrites()
	}); p != nil {
		c.Run.Violate(ev.Violation{Pred: "no-crash", Sig: map[string]any{"value": v, "route": "DNSRewrites"}, What: fmt.Sprintf("evaluating the rewrites of %q with exceptions panics: %v", text, p), Replay: map[string]any{"value": v}})
		return true
	}
	if !reflect.DeepEqual(r1.DNSRewrite, r2.DNSRewrite) {
		c.Run.Violate(ev.Violation{Pred: "deterministic", Sig: map[string]any{"value": v}, What: fmt.Sprintf("parsing %q twice gives %+v (after it was evaluated with exceptions) and %+v (never used)", text, *r1.DNSRewrite, *r2.DNSRewrite), Replay: map[string]any{"value": v}})
	}
	return true
}

func init() {
	register("C10", "exploration", func(c *Ctx) {
		if c.Replay != nil {
			c10Check(c, c.Replay["value"].(string))
			return
		}
		n := 3
		if c.Thorough() {
			n = 5
		}
		k := len(c10Tokens)
		var mu sync.Mutex
		var evals, accepted int64
		distinct := map[string]bool{}
		exhaustive := true
		shapes := map[string]int64{}
		c.parallel(k, func(first int) {
			var le, la int64
			local := map[string]bool{}
			lshapes := map[string]int64{}
			run := func(v string) {
				le++
				if c10Check(c, v) {
					la++
					if len(local) < 200000 {
						local[v] = true
					}
					r, _ := rules.NewNetworkRule("||h.test^$dnsrewrite="+v, 1)
					if r != nil && r.DNSRewrite != nil {
						lshapes[fmt.Sprintf("rcode=%d rr=%d cname=%v value=%T", r.DNSRewrite.RCode, r.DNSRewrite.RRType, r.DNSRewrite.NewCNAME != "", r.DNSRewrite.Value)]++
					}
				}
			}
			for l := 0; l < n; l++ {
				if c.Expired() {
					mu.Lock()
					exhaustive = false
					mu.Unlock()
					break
				}
				enum.Sequences(k, l, func(s []int) bool {
					var sb strings.Builder
					sb.WriteString(c10Tokens[first])
					for _, t := range s {
						sb.WriteString(c10Tokens[t])
					}
					run(sb.String())
					return true
				})
			}
			mu.Lock()
			evals += le
			accepted += la
			for v := range local {
				distinct[v] = true
			}
			for s, n := range lshapes {
				shapes[s] += n
			}
			mu.Unlock()
		})
		// structured product: rcode ; rrtype ; value
		rcodes := []string{"NOERROR", "noerror", "SERVFAIL", "NXDOMAIN", "REFUSED", "BADCODE", ""}
		rrtypes := []string{"A", "AAAA", "CNAME", "MX", "PTR", "TXT", "HTTPS", "SVCB", "SRV", "NS", "none", "reserved", "XYZ", "", "a", "ptr", "https"}
		vtoks := []string{"", "0", "10", "65535", "65536", "-1", "1.2.3.4", "::1", "::ffff:1.2.3.4", "example.org", "example.org.", ".", "a-", "-a", "alpn=h2", "k=v=w", "alpn=", "k=\"", "k=\"v\"", "010", "0x10", "caf\u00e9", "1.2.3.\uff14", "a\x10c.example", "a\x19c.example.", "dohpath=/q?v=1", strings.Repeat("t", 300), "hello world", strings.Repeat("x", 64), "example.org..", "a..", ".."}
		vn := 3
		if c.Thorough() {
			vn = 4
		}
		var vals []string
		enum.SequencesUpTo(len(vtoks), vn, func(s []int) bool {
			var parts []string
			for _, t := range s {
				parts = append(parts, vtoks[t])
			}
			vals = append(vals, strings.Join(parts, " "))
			if len(parts) > 1 {
				vals = append(vals, strings.Join(parts, ""))
			}
			return true
		})
		c.parallel(len(rcodes)*len(rrtypes), func(i int) {
			rc, rr := rcodes[i/len(rrtypes)], rrtypes[i%len(rrtypes)]
			var le, la int64
			lshapes := map[string]int64{}
			for _, v := range vals {
				if c.Expired() {
					mu.Lock()
					exhaustive = false
					mu.Unlock()
					break
				}
				full := rc + ";" + rr + ";" + v
				le++
				if c10Check(c, full) {
					la++
				}
			}
			mu.Lock()
			evals += le
			accepted += la
			for s, n := range lshapes {
				shapes[s] += n
			}
			mu.Unlock()
		})
		// record-shaped layer: for the record types with a structured value, every
		// value of 0..5 blank-separated fields over a small field alphabet (empty
		// fields, i.e. leading, trailing and doubled blanks, included)
		fields := []string{"", "0", "10", "010", "example.org", "example.org.", "alpn=h2"}
		var shaped []string
		enum.SequencesUpTo(len(fields), 5, func(s []int) bool {
			var parts []string
			for _, t := range s {
				parts = append(parts, fields[t])
			}
			shaped = append(shaped, strings.Join(parts, " "))
			return true
		})
		shapedTypes := []string{"MX", "SRV", "HTTPS", "SVCB", "TXT", "PTR"}
		c.parallel(len(shapedTypes), func(i int) {
			var le, la int64
			for _, v := range shaped {
				le++
				if c10Check(c, "NOERROR;"+shapedTypes[i]+";"+v) {
					la++
				}
			}
			mu.Lock()
			evals += le
			accepted += la
			mu.Unlock()
		})
		c.Run.Set("record_shaped_values", int64(len(shaped)*len(shapedTypes)))
		c.Run.Sample(map[string]any{"value": "NOERROR;MX;10 example.org", "accepted": c10Check(c, "NOERROR;MX;10 example.org")})
		c.Run.Sample(map[string]any{"value": "REFUSED;A;1.2.3.4", "accepted": c10Check(c, "REFUSED;A;1.2.3.4")})
		c.Run.Sample(map[string]any{"value": "::ffff:1.2.3.4", "accepted": c10Check(c, "::ffff:1.2.3.4")})
		c.Run.Set("evaluations", evals)
		c.Run.Set("accepted_values", accepted)
		c.Run.Set("accepted_shapes_token_layer", shapes)
		c.Run.Set("distinct_nontrivial", int64(len(distinct)))
		c.Run.Set("rule", fmt.Sprintf("every concatenation of 1..%d tokens over %d tokens (keywords, record types, delimiters, numeric bounds, addresses, names) as the $dnsrewrite value, plus the record-shaped layer (MX/SRV/HTTPS/SVCB/TXT/PTR x every value of 0..5 blank-separated fields over 6 field tokens incl. the empty field) and the structured product rcode(7) x rrtype(17) x every space-joined value of <=%d of 24 value tokens; distinct_nontrivial = distinct accepted values of the token layer (the shape predicate is evaluated on each)", n, k, vn))
		c.Run.Set("exhaustive", exhaustive)
		c.Run.Assumption("byte-level mutation / coverage guidance is a different family and is not done; the claim is exhaustive up to the token bounds only")
	})
}
