package props

import (
	"fmt"
	"math"
	"os"
	"path/filepath"
	"strings"
	"sync"
	"sync/atomic"

	"github.com/AdguardTeam/urlfilter"
	"github.com/AdguardTeam/urlfilter/filterlist"
	"github.com/AdguardTeam/urlfilter/rules"

	"verif/enum"
	"verif/ev"
)

// C11 — every scanned rule can be retrieved by its index from any backing store.

func c11LongRule(n int) string {
	const pre, suf = "||", ".long.test^"
	return pre + strings.Repeat("a", n-len(pre)-len(suf)) + suf
}

func c11LongComment(n int) string { return "! " + strings.Repeat("c", n-2) }

var c11LongLens = []int{4094, 4095, 4096, 4097, 8191, 8192, 8193}

func c11Symbols() (syms []string) {
	syms = []string{
		"||example.org^", "! comment", "# comment", "", "   ", "##banner", "||x.test^$unknownmodifier", "0.0.0.0 hosts.test",
		"||пример.рф^", "||nul\x00.test^", "example.org##.specific", "@@||example.org^$document",
		// "##" in places where it is not a cosmetic marker, unsupported and invalid cosmetic forms
		"127.0.0.1 tracker.test #ads##old", "||example.net/page#top##section", "0.0.0.0 hosts3.test  ## note", "example.org#?#.ext", "#@#.nodomain",
		"example.org,~sub.example.org##.neg", "\texample.com##.tab-indented", "||example.org^$important ", "\ufeff||bom.test^", "\ufeff! comment after a byte-order mark",
		// white space other than blank, tab, CR at the edges of a line; a CR that is not followed by LF
		"||vt.test^\v", "\u00a0||nbsp.test^", "||nel.test^\u0085", "\r||cr-start.test^", "example.org##.ad\r.banner",
		"/ad", "a.b", // the shortest lines that are rules
		"\xbf||latin1.test^", "\x80.test^x", // first byte 0x80..0xBF (a list saved in a single-byte encoding)
	}
	for _, n := range c11LongLens {
		syms = append(syms, c11LongRule(n), c11LongComment(n))
	}
	return syms
}

type c11Entry struct {
	kind string
	text string
	list int
	idx  int64
}

func kindOf(r rules.Rule) string {
	switch r.(type) {
	case *rules.NetworkRule:
		return "network"
	case *rules.HostRule:
		return "host"
	case *rules.CosmeticRule:
		return "cosmetic"
	}
	return fmt.Sprintf("%T", r)
}

func c11Render(r rules.Rule) string {
	switch v := r.(type) {
	case *rules.NetworkRule:
		if v == nil {
			return "<nil>"
		}
	case *rules.HostRule:
		if v == nil {
			return "<nil>"
		}
	case nil:
		return "<nil>"
	}
	return fmt.Sprintf("%s %q list %d", kindOf(r), clip(r.Text()), r.GetFilterListID())
}

// c11Reference parses the content line by line.
func c11Reference(content string, id int, ignoreCosmetic bool) (out []c11Entry) {
	off := 0
	for off < len(content) {
		end := strings.IndexByte(content[off:], '\n')
		var line string
		next := 0
		if end == -1 {
			line = content[off:]
			next = len(content)
		} else {
			line = content[off : off+end]
			next = off + end + 1
		}
		r, err := rules.NewRule(line, id)
		if r != nil && err == nil {
			if _, isCos := r.(*rules.CosmeticRule); !(isCos && ignoreCosmetic) {
				out = append(out, c11Entry{kindOf(r), r.Text(), id, int64(int32(id))<<32 | int64(off)&0xFFFFFFFF})
			}
		}
		off = next
	}
	return out
}

type c11List struct {
	id             int
	content        string
	ignoreCosmetic bool
}

var c11FileSeq atomic.Int64

// c11Storage builds a storage over the lists.
func c11Storage(lists []c11List, file bool) (*filterlist.RuleStorage, func()) {
	var ls []filterlist.RuleList
	var paths []string
	for _, l := range lists {
		if file {
			p := filepath.Join(os.Getenv("VERIF_WORK"), fmt.Sprintf("c11-%d-%d.txt", os.Getpid(), c11FileSeq.Add(1)))
			if err := os.WriteFile(p, []byte(l.content), 0o644); err != nil {
				panic(HarnessError(err.Error()))
			}
			paths = append(paths, p)
			fl, err := filterlist.NewFileRuleList(l.id, p, l.ignoreCosmetic)
			if err != nil {
				panic(HarnessError(err.Error()))
			}
			ls = append(ls, fl)
		} else {
			ls = append(ls, &filterlist.StringRuleList{ID: l.id, RulesText: l.content, IgnoreCosmetic: l.ignoreCosmetic})
		}
	}
	st, err := filterlist.NewRuleStorage(ls)
	if err != nil {
		panic(HarnessError(err.Error()))
	}
	return st, func() {
		_ = st.Close()
		for _, p := range paths {
			_ = os.Remove(p)
		}
	}
}

// c11Synthetic builds two lists larger than the read buffer.
func c11Synthetic(final string) []c11List {
	var sb strings.Builder
	for i := 0; i < 400; i++ {
		switch i % 7 {
		case 3:
			fmt.Fprintf(&sb, "0.0.0.0 repeated.big.test h%d.big.test\n", i)
		case 5:
			fmt.Fprintf(&sb, "||n%d.big.test^$important\n", i)
		case 6:
			fmt.Fprintf(&sb, "big.test##.s%d\n", i)
		default:
			fmt.Fprintf(&sb, "0.0.0.0 h%d.big.test\n", i)
		}
	}
	content := strings.TrimSuffix(sb.String(), "\n") + final
	return []c11List{{0, content, false}, {7, "0.0.0.0 repeated.big.test\n" + content, true}}
}

// c11ProbeHosts returns host names listed in hosts-file lines of the lists.
func c11ProbeHosts(lists []c11List) (hosts []string) {
	seen := map[string]bool{}
	for _, l := range lists {
		lines := strings.Split(l.content, "\n")
		step := len(lines)/400 + 1
		for i := 0; i < len(lines); i += step {
			r, err := rules.NewRule(strings.TrimRight(lines[i], "\r"), l.id)
			if hr, ok := r.(*rules.HostRule); ok && err == nil && hr != nil {
				for _, h := range hr.Hostnames {
					if !seen[h] {
						seen[h] = true
						hosts = append(hosts, h)
					}
				}
			}
		}
	}
	return hosts
}

func c11Scan(st *filterlist.RuleStorage) (out []c11Entry) {
	sc := st.NewRuleStorageScanner()
	for sc.Scan() {
		r, idx := sc.Rule()
		out = append(out, c11Entry{kindOf(r), r.Text(), r.GetFilterListID(), idx})
	}
	return out
}

func c11Describe(lists []c11List) string {
	var sb strings.Builder
	for _, l := range lists {
		fmt.Fprintf(&sb, "[id=%d ignoreCosmetic=%v %d bytes %q] ", l.id, l.ignoreCosmetic, len(l.content), clip(l.content))
	}
	return sb.String()
}

var c11Requests = []string{"http://example.org/", "http://aaaa.long.test/", "http://hosts.test/", "http://пример.рф/", "http://tracker.test/", "http://example.net/page#top##section", "http://hosts3.test/"}

// c11Check checks one configuration on both backings.
func c11Check(c *Ctx, lists []c11List, sig map[string]any, replay map[string]any) (evals int64) {
	var want []c11Entry
	for _, l := range lists {
		want = append(want, c11Reference(l.content, l.id, l.ignoreCosmetic)...)
	}
	bad := func(pred, what string) {
		c.Run.Violate(ev.Violation{Pred: pred, Sig: sig, What: what, Replay: replay})
	}
	var answers [2]string
	for bi, file := range []bool{false, true} {
		name := []string{"StringRuleList", "FileRuleList"}[bi]
		st, cleanup := c11Storage(lists, file)
		func() {
			defer cleanup()
			if p := protect(func() {
				got := c11Scan(st)
				evals++
				if fmt.Sprint(got) != fmt.Sprint(want) {
					bad("scan-equals-line-by-line-parse", fmt.Sprintf("%s %s: scanned %d rules %v, reference parse gives %d rules %v", name, c11Describe(lists), len(got), clip(fmt.Sprint(got)), len(want), clip(fmt.Sprint(want))))
					return
				}
				seen := map[int64]bool{}
				for _, e := range got {
					if seen[e.idx] {
						bad("index-injective", fmt.Sprintf("%s %s: index %d yielded twice", name, c11Describe(lists), e.idx))
						return
					}
					seen[e.idx] = true
				}
				retrieve := func(e c11Entry, pass string) bool {
					r, err := st.RetrieveRule(e.idx)
					evals++
					if err != nil || r == nil || kindOf(r) != e.kind || r.Text() != e.text || r.GetFilterListID() != e.list {
						got := "<nil>"
						if r != nil {
							got = fmt.Sprintf("%s %q list %d", kindOf(r), clip(r.Text()), r.GetFilterListID())
						}
						bad("retrieve-returns-scanned-rule", fmt.Sprintf("%s %s: RetrieveRule(%d) [%s] = %s (err %v), scanned %s %q list %d", name, c11Describe(lists), e.idx, pass, got, err, e.kind, clip(e.text), e.list))
						return false
					}
					return true
				}
				// reverse order on a cold cache, then scan order (cache hits), on a second fresh storage scan order cold
				for i := len(got) - 1; i >= 0; i-- {
					if !retrieve(got[i], "reverse, cold") {
						return
					}
				}
				for _, e := range got {
					if !retrieve(e, "forward, cached") {
						return
					}
				}
				st2, cleanup2 := c11Storage(lists, file)
				defer cleanup2()
				for _, e := range c11Scan(st2) {
					r, err := st2.RetrieveRule(e.idx)
					evals++
					if err != nil || r == nil || r.Text() != e.text || r.GetFilterListID() != e.list {
						bad("retrieve-returns-scanned-rule", fmt.Sprintf("%s %s: RetrieveRule(%d) [forward, cold] failed: %v", name, c11Describe(lists), e.idx, err))
						return
					}
				}
				// the typed accessors on a storage nobody has read from yet: the rule if it is of that type, nil otherwise
				st5, cleanup5 := c11Storage(lists, file)
				defer cleanup5()
				for _, e := range want {
					nr, hr := st5.RetrieveNetworkRule(e.idx), st5.RetrieveHostRule(e.idx)
					evals++
					okN := (e.kind == "network") == (nr != nil) && (nr == nil || (nr.Text() == e.text && nr.GetFilterListID() == e.list))
					okH := (e.kind == "host") == (hr != nil) && (hr == nil || (hr.Text() == e.text && hr.GetFilterListID() == e.list))
					if !okN || !okH {
						bad("retrieve-returns-scanned-rule", fmt.Sprintf("%s %s: index %d holds the %s rule %q of list %d: RetrieveNetworkRule = %s, RetrieveHostRule = %s", name, c11Describe(lists), e.idx, e.kind, clip(e.text), e.list, c11Render(nr), c11Render(hr)))
						return
					}
				}
				// a scanner used on its own over the content of each list
				if !file {
					for _, l := range lists {
						sc := filterlist.NewRuleScanner(strings.NewReader(l.content), l.id, l.ignoreCosmetic)
						var alone []c11Entry
						for sc.Scan() {
							r, off := sc.Rule()
							alone = append(alone, c11Entry{kindOf(r), r.Text(), r.GetFilterListID(), int64(int32(l.id))<<32 | int64(off)&0xFFFFFFFF})
						}
						evals++
						if ref := c11Reference(l.content, l.id, l.ignoreCosmetic); fmt.Sprint(alone) != fmt.Sprint(ref) {
							bad("scan-equals-line-by-line-parse", fmt.Sprintf("NewRuleScanner alone over list %d of %s: scanned %s, reference parse gives %s", l.id, c11Describe(lists), clip(fmt.Sprint(alone)), clip(fmt.Sprint(ref))))
							return
						}
					}
				}
				// engines over this backing, each built on a storage nobody has read
				// from yet (a warm rule cache would hide what the engines' own scans
				// do to the backing store)
				var sb strings.Builder
				st3, cleanup3 := c11Storage(lists, file)
				defer cleanup3()
				st4, cleanup4 := c11Storage(lists, file)
				defer cleanup4()
				ne := urlfilter.NewNetworkEngine(st3)
				de := urlfilter.NewDNSEngine(st4)
				for _, u := range c11Requests {
					sb.WriteString(fmt.Sprint(sortedSet(netTexts(ne.MatchAll(rules.NewRequest(u, "", rules.TypeDocument))))))
					res, ok := de.Match(strings.TrimSuffix(strings.TrimPrefix(u, "http://"), "/"))
					sb.WriteString(fmt.Sprintf("%v %s %d %d;", ok, renderNetText(res.NetworkRule), len(res.HostRulesV4), len(res.HostRulesV6)))
				}
				// names the lists themselves mention in hosts-file lines (all of them for
				// short lists, a stride for the bundled ones)
				for _, h := range c11ProbeHosts(lists) {
					res, ok := de.Match(h)
					sb.WriteString(fmt.Sprintf("%s:%v %d %d;", h, ok, len(res.HostRulesV4), len(res.HostRulesV6)))
				}
				answers[bi] = sb.String()
			}); p != nil {
				bad("no-crash", fmt.Sprintf("%s %s: panic: %v", name, c11Describe(lists), p))
			}
		}()
	}
	if answers[0] != answers[1] && answers[0] != "" && answers[1] != "" {
		bad("string-and-file-engines-agree", fmt.Sprintf("%s: engines over String lists answer %s, over File lists %s", c11Describe(lists), clip(answers[0]), clip(answers[1])))
	}
	return evals
}

func init() {
	register("C11", "exploration", func(c *Ctx) {
		syms := c11Symbols()
		mk := func(seq []int, crlf, final bool) string {
			term := "\n"
			if crlf {
				term = "\r\n"
			}
			var ls []string
			for _, k := range seq {
				ls = append(ls, syms[k])
			}
			s := strings.Join(ls, term)
			if final && len(seq) > 0 {
				s += term
			}
			return s
		}
		if c.Replay != nil {
			if raw, ok := c.Replay["inert_block"].([]any); ok {
				n, kind := int(raw[0].(float64)), int(raw[1].(float64))
				inert := []string{"! c", "", "##.ad"}[kind]
				content := "||before.test^\n0.0.0.0 before.test\n" + strings.Repeat(inert+"\n", n) + "||after.test^\n0.0.0.0 after.test\n"
				c11Check(c, []c11List{{2, content, kind == 2}, {1, "||second-list.test^\n", false}}, map[string]any{}, c.Replay)
				return
			}
			if _, ok := c.Replay["two_scanners"]; ok {
				c11TwoScanners(c)
				return
			}
			if _, ok := c.Replay["collector"]; ok {
				c11Collector(c)
				return
			}
			if raw, ok := c.Replay["many_ids"].([]any); ok {
				var lists []c11List
				for k, v := range raw {
					id := int(v.(float64))
					content := fmt.Sprintf("! list %d\n||l%d.test^\n0.0.0.0 h%d.test\nexample.org##.c%d\n", id, k, k, k)
					if k%3 == 1 {
						content = fmt.Sprintf("! a longer header for list %d ----------------\n\n0.0.0.0 h%d.test alias%d.test\n||l%d.test^$important\n", id, k, k, k)
					}
					lists = append(lists, c11List{id, content, k%4 == 2})
				}
				c11Check(c, lists, map[string]any{}, c.Replay)
				return
			}
			if f, ok := c.Replay["synthetic_final"].(string); ok {
				c11Check(c, c11Synthetic(f), map[string]any{}, c.Replay)
				return
			}
			if rel, ok := c.Replay["corpus_file"].(string); ok {
				ic, _ := c.Replay["ignore_cosmetic"].(bool)
				c11Check(c, []c11List{{1, corpusContent(rel), ic}}, map[string]any{}, c.Replay)
				return
			}
			var lists []c11List
			for _, l := range c.Replay["lists"].([]any) {
				m := l.(map[string]any)
				var seq []int
				for _, k := range m["seq"].([]any) {
					seq = append(seq, int(k.(float64)))
				}
				lists = append(lists, c11List{id: int(m["id"].(float64)), content: mk(seq, m["crlf"].(bool), m["final"].(bool)), ignoreCosmetic: m["ignore_cosmetic"].(bool)})
			}
			c11Check(c, lists, map[string]any{}, c.Replay)
			return
		}
		maxLines := 2
		if c.Thorough() {
			maxLines = 3
		}
		var seqs [][]int
		enum.SequencesUpTo(len(syms), maxLines, func(s []int) bool {
			seqs = append(seqs, append([]int{}, s...))
			return true
		})
		var mu sync.Mutex
		var evals, configs int64
		exhaustive := true
		c.parallel(len(seqs), func(i int) {
			if c.Expired() {
				mu.Lock()
				exhaustive = false
				mu.Unlock()
				return
			}
			var e, n int64
			for _, crlf := range []bool{false, true} {
				for _, final := range []bool{true, false} {
					for _, ic := range []bool{false, true} {
						content := mk(seqs[i], crlf, final)
						desc := map[string]any{"id": 5, "seq": seqs[i], "crlf": crlf, "final": final, "ignore_cosmetic": ic}
						e += c11Check(c, []c11List{{5, content, ic}}, map[string]any{"lists": []any{desc}}, map[string]any{"lists": []any{desc}})
						n++
					}
				}
			}
			mu.Lock()
			evals += e
			configs += n
			mu.Unlock()
			if i%1013 == 0 {
				var names []string
				for _, k := range seqs[i] {
					names = append(names, clip(syms[k]))
				}
				c.Run.Sample(map[string]any{"lines": names, "variants": "LF/CRLF x final newline x IgnoreCosmetic x String/File"})
			}
		})
		// multi-list layer: every injective assignment of ids to 1..4 lists
		ids := []int{0, 1, -1, 2, math.MaxInt32, math.MinInt32}
		contents := [][]int{{0, 5, 7}, {1, 0, 10, 12}, {8, 3, 0}, {11, 0}}
		var assigns [][]int
		for k := 1; k <= 4; k++ {
			enum.Sequences(len(ids), k, func(s []int) bool {
				seen := map[int]bool{}
				for _, v := range s {
					if seen[v] {
						return true
					}
					seen[v] = true
				}
				assigns = append(assigns, append([]int{}, s...))
				return true
			})
		}
		c.parallel(len(assigns), func(i int) {
			var lists []c11List
			var descs []any
			for li, v := range assigns[i] {
				crlf, final := li%2 == 1, li%3 != 2
				lists = append(lists, c11List{ids[v], mk(contents[li], crlf, final), false})
				descs = append(descs, map[string]any{"id": ids[v], "seq": contents[li], "crlf": crlf, "final": final, "ignore_cosmetic": false})
			}
			e := c11Check(c, lists, map[string]any{"lists": descs}, map[string]any{"lists": descs})
			mu.Lock()
			evals += e
			configs++
			mu.Unlock()
		})
		// lists that yield nothing (empty, comment-only, ignored cosmetic rules) at
		// every position among 1..4 lists
		kinds := []struct {
			seq []int
			ic  bool
		}{{[]int{0, 7}, false}, {nil, false}, {[]int{1, 3, 2}, false}, {[]int{5, 10}, true}, {[]int{8}, false}}
		var shapes [][]int
		for k := 1; k <= 4; k++ {
			enum.Sequences(len(kinds), k, func(s []int) bool {
				shapes = append(shapes, append([]int{}, s...))
				return true
			})
		}
		c.parallel(len(shapes), func(i int) {
			var lists []c11List
			var descs []any
			for li, kd := range shapes[i] {
				k := kinds[kd]
				lists = append(lists, c11List{li + 1, mk(k.seq, false, true), k.ic})
				descs = append(descs, map[string]any{"id": li + 1, "seq": append([]int{}, k.seq...), "crlf": false, "final": true, "ignore_cosmetic": k.ic})
			}
			e := c11Check(c, lists, map[string]any{"lists": descs}, map[string]any{"lists": descs})
			mu.Lock()
			evals += e
			configs++
			mu.Unlock()
		})
		// corpus layer: the bundled real-world lists, whole, in both backings
		files := []string{"testdata/easylist.txt", "testdata/hosts"}
		if c.Thorough() {
			files = corpusFiles
		}
		var corpusRules int64
		for fi, rel := range files {
			content := corpusContent(rel)
			if content == "" {
				continue
			}
			for _, ic := range []bool{false, true} {
				if !c.Thorough() && ic {
					continue
				}
				desc := map[string]any{"file": rel, "ignore_cosmetic": ic}
				evals += c11Check(c, []c11List{{fi + 1, content, ic}}, desc, map[string]any{"corpus_file": rel, "ignore_cosmetic": ic})
				configs++
			}
			corpusRules += int64(len(c11Reference(content, fi+1, false)))
		}
		// synthetic lists larger than the read buffer: repeated host names, rules of
		// every kind, with and without a final line terminator
		// retrievals interleaved with scans, on a file-backed list whose lines are all
		// 32 bytes long (a rule starts exactly one read block after another rule)
		{
			var sb strings.Builder
			for i := 0; i < 520; i++ {
				sb.WriteString(fmt.Sprintf("0.0.0.0 h%04d.aligned-line.test\n", i)) // 32 bytes
			}
			content := sb.String()
			lists := []c11List{{4, content, false}}
			st, cleanup := c11Storage(lists, true)
			scanned := c11Scan(st)
			bad := func(what string) {
				c.Run.Violate(ev.Violation{Pred: "retrieve-returns-scanned-rule", Sig: map[string]any{"aligned": true, "what": what},
					What: "file-backed list of 520 lines of 32 bytes each: " + what, Replay: map[string]any{"lists": []any{}}})
			}
			if len(scanned) != 520 || len(content) != 520*32 {
				bad(fmt.Sprintf("scan yields %d rules for %d bytes", len(scanned), len(content)))
			} else {
				for _, pair := range [][2]int{{0, 128}, {128, 256}, {1, 129}, {300, 428}, {128, 0}, {511, 383}} {
					for _, k := range pair {
						evals++
						r, err := st.RetrieveRule(scanned[k].idx)
						if err != nil || r == nil || r.Text() != scanned[k].text {
							bad(fmt.Sprintf("after retrievals and scans, RetrieveRule of line %d fails: %v", k, err))
							break
						}
						c11Scan(st) // a scan between two retrievals moves the file offset
					}
				}
			}
			cleanup()
		}
		// more lists than the id assignments above use: six and eight lists, ids in no particular order
		for _, ids := range [][]int{{50, 10, 40, 20, 30, -5}, {3, 1, 2, 4, 5, 0, -1, 7}, {10, 20, 30, 40, 50, 15}, {math.MaxInt32, 5, math.MinInt32, 4, 0, 3, -2, 1}} {
			var lists []c11List
			for k, id := range ids {
				content := fmt.Sprintf("! list %d\n||l%d.test^\n0.0.0.0 h%d.test\nexample.org##.c%d\n", id, k, k, k)
				if k%3 == 1 {
					content = fmt.Sprintf("! a longer header for list %d ----------------\n\n0.0.0.0 h%d.test alias%d.test\n||l%d.test^$important\n", id, k, k, k)
				}
				lists = append(lists, c11List{id, content, k%4 == 2})
			}
			evals += c11Check(c, lists, map[string]any{"lists": len(ids), "ids": fmt.Sprint(ids)}, map[string]any{"many_ids": ids})
			configs++
		}
		// a rule line longer than 64 KiB between two short ones
		{
			var ds []string
			for i := 0; i < 5000; i++ {
				ds = append(ds, fmt.Sprintf("site%05d.test", i))
			}
			huge := "||before.test^\n/huge$domain=" + strings.Join(ds, "|") + "\n||after.test^\n0.0.0.0 after.test\n"
			evals += c11Check(c, []c11List{{3, huge, false}}, map[string]any{"synthetic": "a rule of " + fmt.Sprint(len(huge)) + " bytes"}, map[string]any{"lists": []any{}})
			configs++
		}
		for _, final := range []string{"\n", ""} {
			evals += c11Check(c, c11Synthetic(final), map[string]any{"synthetic": "400 lines", "final": final}, map[string]any{"synthetic_final": final})
			configs++
		}
		// count boundaries: a block of n consecutive lines that yield no rule (comments, blank lines, cosmetic
		// rules a list loaded with IgnoreCosmetic drops) in front of, between and behind rules
		{
			ns := []int{255, 256, 257, 1023, 1024, 1025, 4096}
			if c.Thorough() {
				ns = append(ns, 65535, 65536, 65537)
			}
			for _, n := range ns {
				for kind, inert := range []string{"! c", "", "##.ad"} {
					content := "||before.test^\n0.0.0.0 before.test\n" + strings.Repeat(inert+"\n", n) + "||after.test^\n0.0.0.0 after.test\n"
					evals += c11Check(c, []c11List{{2, content, kind == 2}, {1, "||second-list.test^\n", false}}, map[string]any{"inert_block": n, "kind": kind}, map[string]any{"inert_block": []int{n, kind}})
					configs++
				}
			}
		}
		// every byte value as the last (and as the first) byte of a rule line: three rules, the middle one varies,
		// each with and without a terminator after the last line (the reference parse decides what is a rule)
		for b := 1; b < 256; b++ {
			if b == '\n' {
				continue
			}
			for _, shape := range []string{"||edge.test/p%s", "%s||edge.test^", "0.0.0.0 host.edge.test a.x%s", "||edge.test/\xc3%s", "||edge.test/\xd0%s", "||edge.test/\xe2\x80%s"} {
				line := fmt.Sprintf(shape, string([]byte{byte(b)}))
				for _, final := range []string{"\n", ""} {
					content := "||first.test^\n" + line + "\n0.0.0.0 last.edge.test" + final
					if b%2 == 0 {
						content = "||first.test^\n0.0.0.0 mid.edge.test\n" + line + final
					}
					evals += c11Check(c, []c11List{{0, content, false}}, map[string]any{"edge_byte": b, "shape": shape, "final": final}, map[string]any{"lists": []any{}})
					configs++
				}
			}
		}
		// lines that look like something else than a rule and are rules
		for _, line := range []string{"[::1]", "[2001:db8::1]", "[Adblock Plus 2.0]", "[x]", "##a", "a.b", "~", "$$", "|", "^", "@@", "!#if", "#%#", "0.0.0.0", "::", "localhost"} {
			for _, final := range []string{"\n", ""} {
				for _, content := range []string{line + final, "||first.test^\n" + line + final, line + "\n" + line + final} {
					evals += c11Check(c, []c11List{{0, content, false}}, map[string]any{"odd_line": line, "final": final, "content": content}, map[string]any{"lists": []any{}})
					configs++
				}
			}
		}
		// the collector as an environment step at every stated point of a scan whose list is no longer referenced
		{
			e, points, drained := c11Collector(c)
			evals += e
			configs += points
			c.Run.Set("collector_points", points)
			c.Run.Set("collector_points_with_finalisers_drained", drained)
		}
		{
			e, cases := c11TwoScanners(c)
			evals += e
			configs += cases
			c.Run.Set("two_scanner_schedules", cases)
		}
		c.Run.Set("corpus_rules_scanned_and_retrieved", corpusRules)
		c.Run.Set("list_shape_assignments", int64(len(shapes)))
		c.Run.Set("line_symbols", int64(len(syms)))
		c.Run.Set("contents", int64(len(seqs)*4))
		c.Run.Set("id_assignments", int64(len(assigns)))
		c.Run.Set("configurations", configs)
		c.Run.Set("evaluations", evals)
		c.Run.Set("distinct_nontrivial", configs)
		c.Run.Set("rule", fmt.Sprintf("every content of <=%d lines over %d line kinds (valid/comment/blank/cosmetic/rejected/hosts/UTF-8/NUL/long lines of 4094..8193 bytes around the 4 KiB block boundaries) x LF/CRLF x final newline x IgnoreCosmetic x String/File backing; every injective assignment of ids from {0,1,-1,2,MaxInt32,MinInt32} to 1..4 lists; every assignment of 5 list shapes (rules, empty, comment-only, ignored cosmetic, one rule) to 1..4 lists; scan vs line-by-line reference, retrieval in reverse/forward/cold/cached order, String vs File engine answers; a garbage collection with the finaliser queue drained before the scan and after the k-th rule (stated set of k; thorough: every 7th of 1200) of a file-backed scanner whose list/storage is no longer referenced; blocks of 255..4096 (thorough: ..65537) consecutive comment, blank and ignored cosmetic lines between rules; two scanners of one in-memory storage with every split point (k rules of the first, then j of the second, either drained first); every configuration is distinct", maxLines, len(syms)))
		c.Run.Set("exhaustive", exhaustive)
		c.Run.Assumption("rules.NewRule is the line parser on both sides (the property is about scanner, index and stores)")
		c.Run.Assumption("retrieval happens after the scan has finished; interleaving scan and retrieval on one file list is outside the quantifier")
	})
}
