package props

import (
	"fmt"
	"os"
	"path/filepath"
	"runtime"
	"strings"
	"time"

	"github.com/AdguardTeam/urlfilter"
	"github.com/AdguardTeam/urlfilter/filterlist"

	"verif/ev"
)

// C11, collector layer.  The garbage collector is an environment the harness
// does not otherwise own: a scanner handed out by a file-backed list (or by a
// storage) may outlive every reference to the list itself.  The layer makes a
// collection (plus a drained finaliser queue) an explicit environment step and
// enumerates the point at which it happens: before the first Scan, and after
// the k-th yielded rule for every k of the stated set.  The oracle is the scan
// of the same content from memory, so it cannot fire on a tree where the
// collector is invisible.

type c11gcSentinel struct{ p *int }

// c11CollectAndDrain runs one collection, then a second one whose only purpose
// is to queue a sentinel finaliser behind everything the first one queued
// (finalisers are run by a single goroutine in queue order), and waits for it.
// A timeout is not an alarm: the step is then merely weaker.
func c11CollectAndDrain() (drained bool) {
	runtime.GC()
	done := make(chan struct{})
	func() {
		s := &c11gcSentinel{p: new(int)}
		runtime.SetFinalizer(s, func(*c11gcSentinel) { close(done) })
	}()
	runtime.GC()
	select {
	case <-done:
		return true
	case <-time.After(2 * time.Second):
		return false
	}
}

//go:noinline
func c11gcListScanner(id int, path string) *filterlist.RuleScanner {
	l, err := filterlist.NewFileRuleList(id, path, false)
	if err != nil {
		panic(HarnessError(err.Error()))
	}
	return l.NewScanner()
}

//go:noinline
func c11gcStorageScanner(id int, path string) *filterlist.RuleStorageScanner {
	l, err := filterlist.NewFileRuleList(id, path, false)
	if err != nil {
		panic(HarnessError(err.Error()))
	}
	st, err := filterlist.NewRuleStorage([]filterlist.RuleList{l})
	if err != nil {
		panic(HarnessError(err.Error()))
	}
	return st.NewRuleStorageScanner()
}

//go:noinline
func c11gcCosmeticEngine(id int, path string, gcBefore bool) *urlfilter.CosmeticEngine {
	l, err := filterlist.NewFileRuleList(id, path, false)
	if err != nil {
		panic(HarnessError(err.Error()))
	}
	st, err := filterlist.NewRuleStorage([]filterlist.RuleList{l})
	if err != nil {
		panic(HarnessError(err.Error()))
	}
	if gcBefore {
		c11CollectAndDrain()
	}
	return urlfilter.NewCosmeticEngine(st)
}

// c11gcContent is a list of n short rules of every kind, several read blocks long.
func c11gcContent(n int) string {
	var sb strings.Builder
	for i := 0; i < n; i++ {
		switch i % 4 {
		case 0:
			fmt.Fprintf(&sb, "##.collector-banner-%05d\n", i)
		case 1:
			fmt.Fprintf(&sb, "||n%05d.collector.test^\n", i)
		case 2:
			fmt.Fprintf(&sb, "0.0.0.0 h%05d.collector.test\n", i)
		default:
			fmt.Fprintf(&sb, "collector.test##.s%05d\n", i)
		}
	}
	return sb.String()
}

// c11Collector runs the layer; it returns the number of evaluations and of
// collection points at which the finaliser queue was observed drained.
func c11Collector(c *Ctx) (evals, points, drained int64) {
	const n = 1200 // ≈ 30 KiB: seven read blocks
	content := c11gcContent(n)
	path := filepath.Join(os.Getenv("VERIF_WORK"), fmt.Sprintf("c11gc-%d.txt", os.Getpid()))
	if err := os.WriteFile(path, []byte(content), 0o644); err != nil {
		panic(HarnessError(err.Error()))
	}
	defer os.Remove(path)
	var want []string
	{
		sc := filterlist.NewRuleScanner(strings.NewReader(content), 9, false)
		for sc.Scan() {
			r, idx := sc.Rule()
			want = append(want, fmt.Sprintf("%d:%s", idx, r.Text()))
		}
	}
	bad := func(route string, k int, what string) {
		c.Run.Violate(ev.Violation{Pred: "scan-equals-line-by-line-parse", Sig: map[string]any{"collector": route, "gc_after_rule": k},
			What:   fmt.Sprintf("file-backed list of %d rules, %s, a garbage collection (finalisers drained) after rule %d of the scan: %s", n, route, k, what),
			Replay: map[string]any{"collector": route, "gc_after_rule": k}})
	}
	ks := []int{-1, 0, 1, 2, 50, 150, 151, 400, 1100}
	if c.Thorough() {
		ks = nil
		for k := -1; k < n; k += 7 {
			ks = append(ks, k)
		}
	}
	if c.Replay != nil {
		if k, ok := c.Replay["gc_after_rule"].(float64); ok {
			ks = []int{int(k)}
		}
	}
	for _, route := range []string{"FileRuleList.NewScanner, the list no longer referenced", "RuleStorage.NewRuleStorageScanner, list and storage no longer referenced"} {
		for _, k := range ks {
			var got []string
			var next func() (string, bool)
			if strings.HasPrefix(route, "FileRuleList") {
				sc := c11gcListScanner(9, path)
				next = func() (string, bool) {
					if !sc.Scan() {
						return "", false
					}
					r, idx := sc.Rule()
					return fmt.Sprintf("%d:%s", idx, r.Text()), true
				}
			} else {
				sc := c11gcStorageScanner(9, path)
				next = func() (string, bool) {
					if !sc.Scan() {
						return "", false
					}
					r, idx := sc.Rule()
					return fmt.Sprintf("%d:%s", idx&0xFFFFFFFF, r.Text()), true
				}
			}
			points++
			if k < 0 && c11CollectAndDrain() {
				drained++
			}
			for {
				s, ok := next()
				if !ok {
					break
				}
				got = append(got, s)
				if len(got)-1 == k && c11CollectAndDrain() {
					drained++
				}
			}
			evals++
			if len(got) != len(want) || strings.Join(got, "\n") != strings.Join(want, "\n") {
				first := 0
				for first < len(got) && first < len(want) && got[first] == want[first] {
					first++
				}
				bad(route, k, fmt.Sprintf("the scan yields %d rules, the same content scanned from memory %d (first difference at rule %d)", len(got), len(want), first))
				return
			}
		}
	}
	// a cosmetic engine keeps no reference to the storage it was built from
	{
		e := c11gcCosmeticEngine(9, path, false)
		c11CollectAndDrain()
		res := e.Match("collector.test", true, true, true)
		evals++
		points++
		wantGeneric, wantSpecific := n/4, n/4
		if len(res.ElementHiding.Generic) != wantGeneric || len(res.ElementHiding.Specific) != wantSpecific {
			bad("NewCosmeticEngine over a storage that is no longer referenced", -1, fmt.Sprintf("the engine hides %d generic and %d specific elements, the list holds %d and %d", len(res.ElementHiding.Generic), len(res.ElementHiding.Specific), wantGeneric, wantSpecific))
			return
		}
	}
	return evals, points, drained
}

// c11TwoScanners: two storage scanners of one in-memory storage, the second one
// created after the first has yielded k rules and advanced j rules before the
// first is drained (then the other way round): each scanner yields the
// line-by-line parse, whatever the other one does.  (File-backed lists share
// one descriptor offset between their scanners; the layer stays with the
// backing for which scanners are independent objects.)
func c11TwoScanners(c *Ctx) (evals, cases int64) {
	lists := []c11List{{7, "||one.example^\n0.0.0.0 h1.example\n", false}, {-3, "! header\n||three.example^\n", false}, {2, "", false}, {0, "example.org##.x\n||four.example^$important\n0.0.0.0 h4.example\n", false}}
	var want []c11Entry
	for _, l := range lists {
		want = append(want, c11Reference(l.content, l.id, l.ignoreCosmetic)...)
	}
	n := len(want)
	step := func(sc *filterlist.RuleStorageScanner, max int, out *[]c11Entry) {
		for k := 0; (max < 0 || k < max) && sc.Scan(); k++ {
			r, idx := sc.Rule()
			*out = append(*out, c11Entry{kindOf(r), r.Text(), r.GetFilterListID(), idx})
		}
	}
	for k := 0; k <= n; k++ {
		for j := 0; j <= n; j++ {
			for _, firstDrained := range []int{1, 2} {
				st, cleanup := c11Storage(lists, false)
				var a, b []c11Entry
				sc1 := st.NewRuleStorageScanner()
				step(sc1, k, &a)
				sc2 := st.NewRuleStorageScanner()
				step(sc2, j, &b)
				if firstDrained == 1 {
					step(sc1, -1, &a)
					step(sc2, -1, &b)
				} else {
					step(sc2, -1, &b)
					step(sc1, -1, &a)
				}
				cleanup()
				evals += 2
				cases++
				for which, got := range [][]c11Entry{a, b} {
					if fmt.Sprint(got) != fmt.Sprint(want) {
						c.Run.Violate(ev.Violation{Pred: "scan-equals-line-by-line-parse", Sig: map[string]any{"two_scanners": true, "k": k, "j": j, "drained_first": firstDrained, "scanner": which + 1},
							What:   fmt.Sprintf("storage of %d in-memory lists; scanner 1 yields %d rules, then scanner 2 is created and yields %d, then scanner %d is drained before the other: scanner %d scanned %d rules %s, the line-by-line parse has %d", len(lists), k, j, firstDrained, which+1, len(got), clip(fmt.Sprint(got)), n),
							Replay: map[string]any{"two_scanners": true}})
						return evals, cases
					}
				}
			}
		}
	}
	return evals, cases
}
