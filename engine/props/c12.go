package props

import (
	"fmt"
	"os"
	"path/filepath"
	"runtime"
	"sort"
	"strings"
	"sync"
	"sync/atomic"
	"time"

	"github.com/AdguardTeam/urlfilter"
	"github.com/AdguardTeam/urlfilter/filterlist"
	"github.com/AdguardTeam/urlfilter/rules"

	"verif/enum"
	"verif/ev"
)

// C12 — parsing and matching never crash; comments and rejected lines are inert.

var c12Tokens = []string{
	"@@", "||", "|", "^", "*", "/", "$", ",", "=", "~", "#", "##", "#@#", "#?#", "$$", "!", "\\", "'", "\"", " ", "\t",
	"0.0.0.0", "::1", "a.com", "x", "domain", "client", "ctag", "dnstype", "dnsrewrite", "denyallow", "important", "badfilter", "A", ".*",
	// complete modifiers, so that short (also one-character) patterns that need a
	// restriction to be accepted are within the token bound
	"$domain=a.com", "$client=x", "$ctag=x", "$dnstype=A", "$denyallow=a.com", "$dnsrewrite=", "$important,domain=x.org|a.com",
	// bytes that are not UTF-8, a rune whose lower case is shorter
	"\xff", "\u212a", "||a.com^*",
	// modifiers cut off after "=", white space other than blank and tab
	"$client=", "$ctag=", "$denyallow=", "$dnstype=", "\u00a0", "\v", "$denyallow=b.com",
	"0.0.0.0 a.com", "\r", "\f",
}

func c12Requests() []*rules.Request {
	r1 := rules.NewRequest("http://a.com/x?domain=x", "", rules.TypeScript)
	r2 := rules.NewRequest("https://sub.a.com/", "http://x.org/", rules.TypeDocument)
	r3 := rules.NewRequestForHostname("a.com")
	r4 := rules.NewRequestForHostname("0.0.0.0")
	r5 := rules.NewRequestForHostname("a.com")
	r5.ClientName, r5.ClientIP, r5.SortedClientTags, r5.DNSType = "x", mustAddr("::1"), []string{"x"}, 1
	r6 := rules.NewRequest("", "", rules.TypeOther)
	r7 := rules.NewRequest("x", "x", 0)
	r8 := rules.NewRequest("HTTP://A.COM/X|^*$", "http://a.com", rules.TypeImage)
	// runes whose lower-case form has another byte length, invalid UTF-8, very long
	r9 := rules.NewRequest("http://a.com/\u212a\u0130x\u2126/domain", "http://\u0130.com/", rules.TypeScript)
	r10 := rules.NewRequest("http://a.com/\xff\xfe\xc3/x", "", rules.TypeOther)
	r11 := rules.NewRequest("http://a.com/"+strings.Repeat("x", 5000), "", rules.TypeScript)
	r12 := rules.NewRequestForHostname("\u212a.a.com")
	// many sorted client tags (none of them "x"), a long client name
	r13 := rules.NewRequestForHostname("a.com")
	r13.SortedClientTags = []string{"d0", "d1", "d2", "d3", "d4", "d5", "d6", "d7", "d8", "d9"}
	r13.ClientName, r13.DNSType = strings.Repeat("n", 300), 28
	// host names that are bracketed or half-bracketed address literals, the empty host name
	r14 := rules.NewRequestForHostname("[::1")
	r15 := rules.NewRequestForHostname("[dead.beef")
	r16 := rules.NewRequestForHostname("")
	r17 := rules.NewRequest("http://[::1]:8080/x", "http://[fe80::1", rules.TypeScript)
	return []*rules.Request{r1, r2, r3, r4, r5, r6, r7, r8, r9, r10, r11, r12, r13, r14, r15, r16, r17}
}

// Termination watchdog.  "Parsing any line ... terminates": a parser that loops
// (and allocates) for ever cannot be caught by recover, and an out-of-memory
// crash would take the evidence with it.  Every line under check is registered;
// a monitor reports the lines that have been in flight for too long, or the
// ones in flight when the heap explodes, writes the evidence and ends the
// process with the VIOLATION line.
var (
	c12InFlight   sync.Map // token -> *c12Flight
	c12FlightSeq  atomic.Int64
	c12WatchOnce  sync.Once
	c12WatchLimit = 40 * time.Second
)

type c12Flight struct {
	line  string
	start time.Time
}

func c12Track(c *Ctx, line string) int64 {
	c12WatchOnce.Do(func() {
		go func() {
			var ms runtime.MemStats
			for {
				time.Sleep(250 * time.Millisecond)
				runtime.ReadMemStats(&ms)
				var stuck []string
				c12InFlight.Range(func(_, v any) bool {
					f := v.(*c12Flight)
					if time.Since(f.start) > c12WatchLimit || ms.HeapAlloc > 6<<30 {
						stuck = append(stuck, f.line)
					}
					return true
				})
				if len(stuck) == 0 {
					continue
				}
				sort.Strings(stuck)
				for _, l := range stuck {
					c.Run.Violate(ev.Violation{Pred: "parsing-terminates", Sig: map[string]any{"line": l},
						What:   fmt.Sprintf("parsing/matching the line %q does not terminate (in flight for %s, heap %d MiB)", l, c12WatchLimit, ms.HeapAlloc>>20),
						Replay: map[string]any{"line": l}})
				}
				rc := c.Run.Finish()
				fmt.Printf("C12 %s: exit=%d (watchdog)\n", c.Tier, rc)
				os.Exit(rc)
			}
		}()
	})
	tok := c12FlightSeq.Add(1)
	c12InFlight.Store(tok, &c12Flight{line: line, start: time.Now()})
	return tok
}

// c12CheckLine feeds one line to every parser, matches what comes out and
// builds one engine of each kind from it.
func c12CheckLine(c *Ctx, line string, reqs []*rules.Request, engines bool) (accepted bool) {
	tok := c12Track(c, line)
	defer c12InFlight.Delete(tok)
	sig := map[string]any{"line": line}
	bad := func(pred, what string) {
		c.Run.Violate(ev.Violation{Pred: pred, Sig: sig, What: what, Replay: map[string]any{"line": line}})
	}
	trimmed := strings.TrimSpace(line)
	type parsed struct {
		name string
		r    rules.Rule
		err  error
	}
	var ps []parsed
	if p := protect(func() {
		r, err := rules.NewRule(line, 9)
		ps = append(ps, parsed{"NewRule", r, err})
		nr, err := rules.NewNetworkRule(trimmed, 9)
		if nr == nil {
			ps = append(ps, parsed{"NewNetworkRule", nil, err})
		} else {
			ps = append(ps, parsed{"NewNetworkRule", nr, err})
		}
		hr, err := rules.NewHostRule(trimmed, 9)
		if hr == nil {
			ps = append(ps, parsed{"NewHostRule", nil, err})
		} else {
			ps = append(ps, parsed{"NewHostRule", hr, err})
		}
		cr, err := rules.NewCosmeticRule(trimmed, 9)
		if cr == nil {
			ps = append(ps, parsed{"NewCosmeticRule", nil, err})
		} else {
			ps = append(ps, parsed{"NewCosmeticRule", cr, err})
		}
	}); p != nil {
		bad("no-crash-parsing", fmt.Sprintf("parsing %q panics: %v", line, p))
		return false
	}
	for _, p := range ps {
		if p.r == nil || p.err != nil {
			// an error is the "error" outcome whatever accompanies it (NewRule
			// may wrap a nil *CosmeticRule in the interface next to the error)
			continue
		}
		if p.name == "NewRule" {
			accepted = true
		}
		var text string
		var id int
		if pt := protect(func() { text, id = p.r.Text(), p.r.GetFilterListID() }); pt != nil {
			// e.g. a nil pointer wrapped in the interface, returned without an error
			bad("text-is-trimmed-line", fmt.Sprintf("%s(%q) returns a %T without an error whose Text() panics: %v", p.name, line, p.r, pt))
			continue
		}
		if text != trimmed || id != 9 {
			bad("text-is-trimmed-line", fmt.Sprintf("%s(%q): Text()=%q list id=%d", p.name, line, text, id))
		}
		if pm := protect(func() {
			switch r := p.r.(type) {
			case *rules.NetworkRule:
				for _, q := range reqs {
					r.Match(q)
					r.Match(q) // second call takes the compiled path
				}
				r.IsHigherPriority(r)
				r.IsHostLevelNetworkRule()
			case *rules.HostRule:
				r.Match("a.com")
				r.Match("")
			case *rules.CosmeticRule:
				r.Match("a.com")
				r.Match("")
			}
		}); pm != nil {
			bad("no-crash-matching", fmt.Sprintf("matching the rule parsed from %q by %s panics: %v", line, p.name, pm))
		}
	}
	if !engines {
		return accepted
	}
	if pm := protect(func() {
		st := stringStorage(line + "\n")
		ne := urlfilter.NewNetworkEngine(st)
		de := urlfilter.NewDNSEngine(st)
		en := urlfilter.NewEngine(st)
		for _, q := range []*rules.Request{reqs[0], reqs[1], reqs[2], reqs[8], reqs[9], reqs[11]} {
			ne.MatchAll(q)
			ne.Match(q)
			en.MatchRequest(q)
		}
		for _, h := range []string{"a.com", "0.0.0.0", "x", "[::1"} {
			res, _ := de.Match(h)
			res.DNSRewrites()
			// a result is read more than once, through every accessor
			res.DNSRewritesAll()
			res.DNSRewrites()
			res.DNSRewritesAll()
			if b := rules.GetDNSBasicRule(res.NetworkRules); b != nil {
				_ = b.Text()
			}
			for _, nr := range res.NetworkRules {
				_ = nr.Text()
			}
			en.GetCosmeticResult(h, rules.CosmeticOptionAll)
		}
	}); pm != nil {
		bad("no-crash-engines", fmt.Sprintf("building/querying engines over the line %q panics: %v", line, pm))
	}
	return accepted
}

var c12Rules = []string{
	"||example.org^", "@@||example.org^$important", "/ad$domain=example.org", "/ex[a-z]+le/", "0.0.0.0 hosts.test", "hosts2.test",
	"##.g1", "example.org##.s1", "example.org#@#.g1", "||rw.test^$dnsrewrite=1.2.3.4",
	"/ad",                                                               // three bytes: the shortest line that is a rule
	c12RuleOfLength(4094), c12RuleOfLength(4095), c12RuleOfLength(4096), // at the 4 KiB mark (with LF, CRLF or no terminator after them)
}

// c12RuleOfLength returns "/ad$domain=example.org|pad..." of exactly n bytes.
func c12RuleOfLength(n int) string {
	s := "/ad$domain=example.org"
	for i := 0; len(s)+14 <= n; i++ {
		s += fmt.Sprintf("|p%07d.test", i)
	}
	for len(s) < n {
		s += "x"
	}
	return s
}

var c12Noise = []string{"", "  ", "\t", "! comment", "# comment", "#", "bad$unknown", "||x.test^$replace=/a/b/", "@@", "||y.test^$domain=", "$$script[x]",
	// longer than the 4 KiB read buffer, with a tail that would be a rule on its own
	"! " + strings.Repeat("-", 4094) + "||x.test^",
	"# " + strings.Repeat("-", 4094) + "0.0.0.0 y.test",
	"||x.test^$unknown=" + strings.Repeat("a", 4078) + "||y.test^",
}

var c12FileSeq atomic.Int64

// c12AnswersFile is c12Answers over a file-backed list.
func c12AnswersFile(text string) string {
	p := filepath.Join(os.Getenv("VERIF_WORK"), fmt.Sprintf("c12-%d-%d.txt", os.Getpid(), c12FileSeq.Add(1)))
	if err := os.WriteFile(p, []byte(text), 0o644); err != nil {
		panic(HarnessError(err.Error()))
	}
	defer os.Remove(p)
	fl, err := filterlist.NewFileRuleList(1, p, false)
	if err != nil {
		panic(HarnessError(err.Error()))
	}
	st, err := filterlist.NewRuleStorage([]filterlist.RuleList{fl})
	if err != nil {
		panic(HarnessError(err.Error()))
	}
	defer st.Close()
	return c12AnswersOver(st)
}

func c12Answers(text string) string { return c12AnswersOver(stringStorage(text)) }

func c12AnswersOver(st *filterlist.RuleStorage) (answers string) {
	// a crash while building or asking the engines is an answer too (it differs from every real one)
	defer func() {
		if p := recover(); p != nil {
			answers = fmt.Sprintf("PANIC: %v", p)
		}
	}()
	ne := urlfilter.NewNetworkEngine(st)
	de := urlfilter.NewDNSEngine(st)
	ce := urlfilter.NewCosmeticEngine(st)
	var sb strings.Builder
	for _, q := range []*rules.Request{
		rules.NewRequest("http://example.org/ad", "http://example.org/", rules.TypeScript),
		rules.NewRequest("http://example.org/ad", "", rules.TypeScript),
		rules.NewRequest("http://x.test/", "http://y.test/", rules.TypeDocument),
		rules.NewRequest("http://exaaample/", "", rules.TypeImage),
	} {
		sb.WriteString(fmt.Sprint(sortedSet(netTexts(ne.MatchAll(q)))))
	}
	for _, h := range []string{"example.org", "hosts.test", "hosts2.test", "rw.test", "x.test", "y.test"} {
		res, ok := de.MatchRequest(&urlfilter.DNSRequest{Hostname: h, DNSType: 1})
		var v4, v6 []string
		for _, r := range res.HostRulesV4 {
			v4 = append(v4, r.RuleText)
		}
		for _, r := range res.HostRulesV6 {
			v6 = append(v6, r.RuleText)
		}
		fmt.Fprintf(&sb, "|%v %s %v %v %v %v", ok, renderNetText(res.NetworkRule), sortedSet(v4), sortedSet(v6), sortedSet(netTexts(res.NetworkRules)), netTexts(res.DNSRewrites()))
	}
	for _, h := range []string{"example.org", "other.net"} {
		r := ce.Match(h, true, true, true)
		fmt.Fprintf(&sb, "|%v %v", sortedSet(r.ElementHiding.Generic), sortedSet(r.ElementHiding.Specific))
	}
	return sb.String()
}

// c12PairQueries builds every engine over the lines and runs web and DNS
// queries for ads.example.com; it reports a panic and returns false.
func c12PairQueries(c *Ctx, lines []string, webReqs []*rules.Request) bool {
	if p := protect(func() {
		st := stringStorage(joinLines(lines) + "\n")
		e := urlfilter.NewEngine(st)
		ne := urlfilter.NewNetworkEngine(st)
		de := urlfilter.NewDNSEngine(st)
		for _, q := range webReqs {
			e.MatchRequest(q).GetBasicResult()
			ne.Match(q)
		}
		res, _ := de.MatchRequest(scenDNSReq())
		res.DNSRewrites()
		res, _ = de.MatchRequest(&urlfilter.DNSRequest{Hostname: "ads.example.com", DNSType: 28})
		res.DNSRewritesAll()
	}); p != nil {
		c.Run.Violate(ev.Violation{Pred: "no-crash", Sig: map[string]any{"lines": lines}, What: fmt.Sprintf("engines over %q: a query panics: %v", lines, p), Replay: map[string]any{"pair_lines": lines}})
		return false
	}
	return true
}

func init() {
	register("C12", "exploration", func(c *Ctx) {
		reqs := c12Requests
		if c.Replay != nil {
			if line, ok := c.Replay["line"].(string); ok {
				c12CheckLine(c, line, reqs(), true)
				return
			}
			if pl, ok := c.Replay["pair_lines"].([]any); ok {
				var lines []string
				for _, l := range pl {
					lines = append(lines, l.(string))
				}
				c12PairQueries(c, lines, []*rules.Request{rules.NewRequest("http://ads.example.com/x", "http://src.org/", rules.TypeScript), rules.NewRequest("http://ads.example.com/x", "", rules.TypeDocument)})
				return
			}
			base, _ := c.Replay["base"].(string)
			noisy, _ := c.Replay["noisy"].(string)
			a, b, bf := c12Answers(base), c12Answers(noisy), c12AnswersFile(noisy)
			if a != b || a != bf {
				c.Run.Violate(ev.Violation{Pred: "noise-is-inert", Sig: map[string]any{}, What: "answers differ: base " + a + " vs string-backed " + b + " vs file-backed " + bf})
			}
			return
		}
		n := 3
		if c.Thorough() {
			n = 4
		}
		k := len(c12Tokens)
		var mu sync.Mutex
		var evals, accepted int64
		exhaustive := true
		c.parallel(k*k, func(ab int) {
			rq := reqs()
			var le, la int64
			for l := 0; l <= n-2; l++ {
				if c.Expired() {
					mu.Lock()
					exhaustive = false
					mu.Unlock()
					break
				}
				enum.Sequences(k, l, func(s []int) bool {
					var sb strings.Builder
					sb.WriteString(c12Tokens[ab/k])
					sb.WriteString(c12Tokens[ab%k])
					for _, t := range s {
						sb.WriteString(c12Tokens[t])
					}
					le++
					if c12CheckLine(c, sb.String(), rq, l <= 1) {
						la++
					}
					return true
				})
			}
			mu.Lock()
			evals += le
			accepted += la
			mu.Unlock()
		})
		rq := reqs()
		for _, t := range c12Tokens {
			evals++
			if c12CheckLine(c, t, rq, true) {
				accepted++
			}
		}
		// corpus layer: every line of the bundled real-world lists (quick: every 4th), and
		// every single-character deletion / substitution of a stride of them
		corpusStride, mutBase := 4, 120
		if c.Thorough() {
			corpusStride, mutBase = 1, 600
		}
		var corpus []string
		for _, rel := range corpusFiles {
			ls := corpusLines(rel)
			for i := 0; i < len(ls); i += corpusStride {
				corpus = append(corpus, ls[i])
			}
		}
		var mutants []string
		if len(corpus) > 0 {
			step := len(corpus)/mutBase + 1
			for i := 0; i < len(corpus); i += step {
				l := corpus[i]
				if len(l) > 60 {
					l = l[:60]
				}
				for pos := 0; pos < len(l); pos++ {
					mutants = append(mutants, l[:pos]+l[pos+1:])
					for _, ch := range []string{"$", "|", "#", ",", "~", "\\", "=", "^"} {
						mutants = append(mutants, l[:pos]+ch+l[pos+1:])
					}
				}
			}
		}
		var corpusAccepted atomic.Int64
		all := append(corpus, mutants...)
		c.parallel(len(all), func(i int) {
			if c.Expired() {
				mu.Lock()
				exhaustive = false
				mu.Unlock()
				return
			}
			if c12CheckLine(c, all[i], reqs(), false) {
				corpusAccepted.Add(1)
			}
		})
		evals += int64(len(all))
		accepted += corpusAccepted.Load()
		c.Run.Set("corpus_lines", int64(len(corpus)))
		c.Run.Set("corpus_line_mutants", int64(len(mutants)))

		// pair layer: crashes that need two cooperating rules (a rule and the
		// $badfilter twin of another one, compared lazily at query time): every
		// ordered pair of the structurally given rule pool, through every engine
		pool := c08Pool()
		var pairEvals atomic.Int64
		webReqs := []*rules.Request{rules.NewRequest("http://ads.example.com/x", "http://src.org/", rules.TypeScript), rules.NewRequest("http://ads.example.com/x", "", rules.TypeDocument)}
		c.parallel(len(pool), func(i int) {
			if c.Expired() {
				mu.Lock()
				exhaustive = false
				mu.Unlock()
				return
			}
			for j := range pool {
				for _, lines := range [][]string{{pool[i].text(), pool[j].twin(len(pool[j].opts)).text()}, {pool[j].twin(0).text(), pool[i].text(), pool[j].text()}} {
					pairEvals.Add(1)
					if !c12PairQueries(c, lines, webReqs) {
						return
					}
				}
			}
		})
		c.Run.Set("rule_pair_lists", pairEvals.Load())

		// inertness
		var lists [][]int
		maxRules := 2
		if c.Thorough() {
			maxRules = 3
		}
		enum.SequencesUpTo(len(c12Rules), maxRules, func(s []int) bool {
			lists = append(lists, append([]int{}, s...))
			return true
		})
		var inert int64
		c.parallel(len(lists), func(i int) {
			if c.Expired() {
				mu.Lock()
				exhaustive = false
				mu.Unlock()
				return
			}
			var ls []string
			for _, r := range lists[i] {
				ls = append(ls, c12Rules[r])
			}
			base := c12Answers(joinLines(ls) + "\n")
			gaps := len(ls) + 1
			var le int64
			for _, noise := range c12Noise {
				for mask := 1; mask < 1<<gaps; mask++ {
					// uniform LF, uniform CRLF, and the two mixtures (CRLF after the
					// inserted lines only, CRLF after the rules only)
					for _, term := range []string{"\n", "\r\n", "noise-crlf", "rules-crlf"} {
						var tb strings.Builder
						put := func(line string, isNoise bool) {
							tb.WriteString(line)
							switch {
							case term == "noise-crlf" && isNoise, term == "rules-crlf" && !isNoise:
								tb.WriteString("\r\n")
							case len(term) > 2:
								tb.WriteString("\n")
							default:
								tb.WriteString(term)
							}
						}
						for g := 0; g < gaps; g++ {
							if mask&(1<<g) != 0 {
								put(noise, true)
							}
							if g < len(ls) {
								put(ls[g], false)
							}
						}
						text := tb.String()
						le++
						if term != "\r\n" {
							if got := c12AnswersFile(text); got != base {
								c.Run.Violate(ev.Violation{Pred: "noise-is-inert-file-backed", Sig: map[string]any{"rules": ls, "noise": clip(noise), "gaps": mask},
									What:   fmt.Sprintf("list %q answers %s; file-backed with noise %q inserted it answers %s", ls, clip(base), clip(noise), clip(got)),
									Replay: map[string]any{"base": joinLines(ls) + "\n", "noisy": text}})
							}
						}
						if got := c12Answers(text); got != base {
							c.Run.Violate(ev.Violation{Pred: "noise-is-inert", Sig: map[string]any{"rules": ls, "noise": noise, "gaps": mask, "endings": term},
								What:   fmt.Sprintf("list %q answers %s; with noise %q inserted (%q) it answers %s", ls, clip(base), noise, clip(text), clip(got)),
								Replay: map[string]any{"base": joinLines(ls) + "\n", "noisy": text}})
						}
					}
				}
			}
			// file backing: with and without the final newline
			if len(ls) > 0 {
				for _, text := range []string{joinLines(ls) + "\n", joinLines(ls), "! c\n" + joinLines(ls)} {
					le++
					if got := c12AnswersFile(text); got != base {
						c.Run.Violate(ev.Violation{Pred: "file-backing-and-final-newline-are-inert", Sig: map[string]any{"rules": ls, "text": clip(text)},
							What: fmt.Sprintf("list %q answers %s as a string list; file-backed as %q it answers %s", ls, clip(base), clip(text), clip(got)), Replay: map[string]any{"base": joinLines(ls) + "\n", "noisy": text}})
					}
				}
			}
			// without a final newline as well
			if len(ls) > 0 {
				le++
				if got := c12Answers(joinLines(ls)); got != base {
					c.Run.Violate(ev.Violation{Pred: "final-newline-is-inert", Sig: map[string]any{"rules": ls}, What: fmt.Sprintf("list %q answers differently without the final newline", ls), Replay: map[string]any{"base": joinLines(ls) + "\n", "noisy": joinLines(ls)}})
				}
			}
			mu.Lock()
			inert += le
			mu.Unlock()
		})
		c.Run.Sample(map[string]any{"line": "@@||a.com^$domain=x", "accepted": c12CheckLine(c, "@@||a.com^$domain=x", rq, true)})
		c.Run.Sample(map[string]any{"line": "x$client='", "accepted": c12CheckLine(c, "x$client='", rq, true)})
		c.Run.Sample(map[string]any{"rules": []string{c12Rules[0], c12Rules[4]}, "noise": "! comment", "gaps": "every non-empty subset of the 3 gaps", "endings": "LF and CRLF"})
		c.Run.Set("line_evaluations", evals)
		c.Run.Set("lines_accepted", accepted)
		c.Run.Set("inertness_evaluations", inert)
		c.Run.Set("evaluations", evals+inert)
		c.Run.Set("distinct_nontrivial", accepted+inert)
		c.Run.Set("rule", fmt.Sprintf("every concatenation of 1..%d tokens over %d tokens as a line through NewRule/NewNetworkRule/NewHostRule/NewCosmeticRule, every rule obtained matched against 8 requests, engines of every kind built from lines of <=3 tokens; every list of <=%d of %d rules with each of %d noise lines at every non-empty subset of the gaps, with LF, CRLF and both mixed endings (String and File backing); every ordered pair of the 47-rule structural pool as [x, badfilter twin of y] through every engine and query kind (no crash); every line of the bundled real-world lists (quick: every 4th) and single-character mutants of a stride of them; non-trivial = accepted lines + inertness cases", n, k, maxRules, len(c12Rules), len(c12Noise)))
		c.Run.Set("exhaustive", exhaustive)
		c.Run.Assumption("arbitrary byte strings / fuzzing are a different family; the claim is exhaustive up to the token bound only")
	})
}
