package props

import (
	"fmt"
	"os"
	"strings"
	"sync"
	"time"

	"github.com/AdguardTeam/urlfilter"
	"github.com/AdguardTeam/urlfilter/filterlist"
	"github.com/AdguardTeam/urlfilter/rules"
	shim "github.com/AdguardTeam/urlfilter/verifshim"
	"github.com/AdguardTeam/urlfilter/verifshim/vsyncutil"

	"verif/ev"
	"verif/scen"
	"verif/statespace"
)

// C13 — query results are a pure function of the lists and the request (E2).
//
// State = hidden mutable state reachable from the engines: rule cache, lazily
// compiled pattern states, the deterministic request pool, plus the result
// objects the harness still holds.  Transition = one real query, one derived
// evaluation on a held result, or an environment step on the pool.

var c13Lists = []scen.ListSpec{
	{ID: 1, Text: "! list A\n||example.org^\n||example.org/ads\n||ads.example.com^\n/ex[a-z]+le\\.net/\n/ad$domain=example.org\n/ads$domain=example.org\n@@||example.org^$generichide\n##.g1\nexample.org##.s1\nexample.org#@#.g2\n##.g2\n/(/\n@@||docsite.test^$document\nmetrics.example.com^\n||cdn.test/blocked.js\n@@||news.example.org/reader/$urlblock\n||tracker.test^\n~other.net##.g3\n##.u1\n##.u2\n##.u3\n##.u4\n"},
	{ID: 2, Text: "# list B\n0.0.0.0 example.org\n:: example.org\n127.0.0.1 hosts.test alias.test\n||blocked.test^$client=10.0.0.1\n||tagged.test^$ctag=pc\n||tagged.test^$dnstype=AAAA,important\n||rw2.test^$dnsrewrite=3.3.3.3\n||rw2.test^$dnsrewrite=3.3.3.3,badfilter\n||rw2.test^$dnsrewrite=4.4.4.4\n||rw2.test^$dnsrewrite=5.5.5.5\n@@||rw2.test^$dnsrewrite=4.4.4.4\n||rw.test^$dnstype=~TXT\n||rw.test^$dnsrewrite=1.2.3.4\n||rw.test^$dnsrewrite=2.3.4.5\n||rw.test^$dnstype=A\n@@||rw.test^$dnsrewrite=1.2.3.4\n||rw.test^$dnsrewrite=NOERROR;MX;10 mx.test\n@@||rw.test^$dnsrewrite=NOERROR;MX;10 mx.test\n/h[o0]sts\\.test/\n"},
	{ID: -3, Text: "*$denyallow=example.com|hosts.test,dnstype=TXT\n||blocked.test^$ctag=~pc\n@@||ads.example.com^$script\n||example.org^$third-party\n||example.org^"}, // the text of a rule of list A again; last line without a terminator
}

func init() {
	// 18 rewrites for one name (more rules than any small buffer holds), and a
	// $client rule with ten subnets and a name
	var sb strings.Builder
	for i := 0; i < 18; i++ {
		fmt.Fprintf(&sb, "||big.test^$dnsrewrite=10.0.0.%d\n", i)
	}
	sb.WriteString("@@||big.test^$dnsrewrite=10.0.0.3\n")
	sb.WriteString("||kid.test^$client=kid-laptop")
	for i := 0; i < 10; i++ {
		fmt.Fprintf(&sb, "|10.%d.0.0/16", i)
	}
	sb.WriteString("\n")
	// a hosts line that names the queried host twice
	sb.WriteString("1.2.3.4 twice.test\n0.0.0.0 twice.test twice.test\n")
	c13Lists[1].Text += sb.String()
}

type c13Op struct {
	name  string
	query *scen.Query
	slot  int // result slot filled by this query (-1 none)
	deriv string
	on    int // slot the derived evaluation works on
}

func c13Ops() []c13Op {
	q := func(kind, url, src string, t rules.RequestType) *scen.Query {
		return &scen.Query{Kind: kind, URL: url, Src: src, Type: t}
	}
	d := func(host string, t uint16, client, ip string, tags ...string) *scen.Query {
		return &scen.Query{Kind: "dns", Host: host, DNSType: t, Client: client, IP: ip, Tags: tags}
	}
	return []c13Op{
		{name: "dns example.org", query: d("example.org", 1, "", ""), slot: 0},
		{name: "dns blocked.test as laptop/10.0.0.1", query: d("blocked.test", 1, "laptop", "10.0.0.1"), slot: -1},
		{name: "dns tagged.test AAAA tags[pc]", query: d("tagged.test", 28, "", "", "pc"), slot: -1},
		{name: "dns rw.test", query: d("rw.test", 1, "", ""), slot: 1},
		{name: "dns rw2.test (a $badfilter pair among the rewrites)", query: d("rw2.test", 1, "", ""), slot: 6},
		{name: "dns TXT 1.2.3.4 (an address as host name, $denyallow rule)", query: d("1.2.3.4", 16, "", ""), slot: -1},
		{name: "dns TXT blocked.test ($denyallow rule)", query: d("blocked.test", 16, "", ""), slot: -1},
		{name: "dns EXAMPLE.org (the name of another query in another letter case)", query: d("EXAMPLE.org", 1, "", ""), slot: -1},
		{name: "dns xample.org (matches nothing; shares shortcut windows with the example.org rules)", query: d("xample.org", 1, "", ""), slot: -1},
		{name: "dns big.test (19 matching rules, all of them rewrites, held)", query: d("big.test", 1, "", ""), slot: 7},
		{name: "dns kid.test as tv/192.168.1.5", query: d("kid.test", 1, "tv", "192.168.1.5"), slot: -1},
		{name: "dns kid.test as kid-laptop/192.168.1.5", query: d("kid.test", 1, "kid-laptop", "192.168.1.5"), slot: -1},
		{name: "dns blocked.test anonymous through DNSEngine.Match(hostname)", query: &scen.Query{Kind: "dnsmatch", Host: "blocked.test"}, slot: -1},
		{name: "dns tagged.test A no tags", query: d("tagged.test", 1, "", ""), slot: -1},
		{name: "netall example.org/ads from example.org", query: q("netall", "http://example.org/ads?u=example.org", "http://example.org/", rules.TypeScript), slot: -1},
		{name: "netmatch example.org/ads from example.org (two equal-priority rules of the domains table)", query: q("netmatch", "http://example.org/ads", "http://example.org/", rules.TypeScript), slot: -1},
		{name: "netall exaample.net (regex rules)", query: q("netall", "http://exaample.net/", "", rules.TypeImage), slot: -1},
		{name: "engine example.org/ads from other.org", query: q("engine", "http://example.org/ads", "http://other.org/", rules.TypeScript), slot: 2},
		{name: "netmatch ads.example.com", query: q("netmatch", "http://ads.example.com/x", "", rules.TypeScript), slot: -1},
		{name: "engine cdn.test/lib.js from docsite.test (document exception on the referrer)", query: q("engine", "http://cdn.test/lib.js", "http://docsite.test/", rules.TypeScript), slot: 3},
		{name: "dns kid.test through DNSEngine.Match(hostname)", query: &scen.Query{Kind: "dnsmatch", Host: "kid.test"}, slot: -1},
		{name: "dns twice.test (a hosts line names it twice)", query: d("twice.test", 1, "", ""), slot: -1},
		{name: "dns metrics.example.com", query: d("metrics.example.com", 1, "", ""), slot: -1},
		{name: "engine tracker.test from news.example.org/reader/ (path-specific $urlblock on the referrer)", query: q("engine", "http://tracker.test/t.js", "http://news.example.org/reader/a", rules.TypeScript), slot: -1},
		{name: "engine tracker.test from news.example.org/front", query: q("engine", "http://tracker.test/t.js", "http://news.example.org/front", rules.TypeScript), slot: -1},
		{name: "cosmetic other.net (held)", query: &scen.Query{Kind: "cosmetic", Host: "other.net", Option: rules.CosmeticOptionAll}, slot: 4},
		{name: "cosmetic example.org (held)", query: &scen.Query{Kind: "cosmetic", Host: "example.org", Option: rules.CosmeticOptionAll}, slot: 5},
		{name: "netall other.test/?u=metrics.example.com", query: q("netall", "http://other.test/?u=metrics.example.com", "", rules.TypeScript), slot: -1},
		{name: "GetBasicResult()+GetCosmeticOption() on held docsite result", deriv: "basic", on: 3},
		{name: "DNSRewrites() on held rw.test result", deriv: "rewrites", on: 1},
		{name: "DNSRewritesAll() on held rw.test result", deriv: "rewritesall", on: 1},
		{name: "DNSRewrites() on held big.test result (rewrite rules only, one exception among them)", deriv: "rewrites", on: 7},
		{name: "DNSRewrites() on held rw2.test result", deriv: "rewrites", on: 6},
		{name: "rules.GetDNSBasicRule(NetworkRules) of the held rw.test result", deriv: "dnsbasic", on: 1},
		{name: "GetBasicResult()+GetCosmeticOption() on held engine result", deriv: "basic", on: 2},
		{name: "env: pooled request poisoned", deriv: "poison", on: -1},
		{name: "env: pool emptied (GC)", deriv: "drop", on: -1},
	}
}

type c13Held struct {
	dns  *urlfilter.DNSResult
	ok   bool
	mr   *rules.MatchingResult
	cos  *urlfilter.CosmeticResult
	snap string
}

func (h *c13Held) render() string {
	switch {
	case h.dns != nil:
		return scen.RenderDNSResult(h.dns, h.ok)
	case h.cos != nil:
		return scen.RenderCosmetic(*h.cos)
	}
	return scen.RenderMatchingResult(h.mr)
}

func c13RenderReq(r *rules.Request) string {
	return fmt.Sprintf("{%s %q %q %q %q %q %q %q %v %d %d %v %v}", r.ClientIP, r.ClientName, r.URL, r.URLLowerCase, r.Hostname, r.Domain, r.SourceURL+r.SourceHostname+r.SourceDomain, r.SortedClientTags, r.RequestType, r.DNSType, r.DNSType, r.ThirdParty, r.IsHostnameRequest)
}

type c13Model struct {
	c        *Ctx
	file     bool
	ops      []c13Op
	expected []string

	freshOnce  sync.Once
	freshIndex string
}

func (m *c13Model) violate(pred string, sig map[string]any, what string, hist []int) {
	var names []string
	for _, o := range hist {
		names = append(names, m.ops[o].name)
	}
	m.c.Run.Violate(ev.Violation{Pred: pred, Sig: sig, What: what + "; history: " + strings.Join(names, " -> "),
		Replay: map[string]any{"history": hist, "file": m.file}})
}

// run replays the history on fresh engines.
func (m *c13Model) run(hist []int) statespace.Outcome {
	e, st, _ := scen.Build(c13Lists, m.file)
	defer st.Close()
	pool, _ := urlfilter.VerifDNSPool(e.DNS).(*vsyncutil.Pool[rules.Request])
	held := map[int]*c13Held{}
	obs := ""
	for i, oi := range hist {
		op := m.ops[oi]
		last := i == len(hist)-1
		crashed := protect(func() { obs = m.step(e, pool, held, op, oi, last, hist, obs) })
		if crashed != nil {
			if _, isHarness := crashed.(HarnessError); isHarness {
				panic(crashed)
			}
			m.violate("no-crash", map[string]any{"op": op.name}, fmt.Sprintf("%s panics: %v", op.name, crashed), hist)
			return statespace.Outcome{Key: "crashed", Observation: "crash"}
		}
	}
	// "evaluating ... alters neither the engine ...": the indexes the engines were built with are what a
	// freshly built engine has (the storage's rule cache and the compiled patterns are the documented lazy state)
	if len(hist) > 0 {
		idx := urlfilter.VerifDNSEngineDump(e.DNS) + "\n--\n" + urlfilter.VerifNetworkEngineDump(e.Net)
		m.freshOnce.Do(func() {
			f, fst, _ := scen.Build(c13Lists, m.file)
			m.freshIndex = urlfilter.VerifDNSEngineDump(f.DNS) + "\n--\n" + urlfilter.VerifNetworkEngineDump(f.Net)
			fst.Close()
		})
		if idx != m.freshIndex {
			m.violate("engine-index-unchanged", map[string]any{"last_op": m.ops[hist[len(hist)-1]].name, "file": m.file},
				fmt.Sprintf("after this history the lookup tables of the engines differ from those of a freshly built engine (first difference at byte %d of the dump: %q vs fresh %q)", firstDiff(idx, m.freshIndex), clipAt(idx, firstDiff(idx, m.freshIndex)), clipAt(m.freshIndex, firstDiff(idx, m.freshIndex))), hist)
		}
	}
	return m.finish(e, st, pool, held, obs)
}

func clipAt(s string, i int) string {
	lo, hi := i-40, i+40
	if lo < 0 {
		lo = 0
	}
	if hi > len(s) {
		hi = len(s)
	}
	return s[lo:hi]
}

// step applies one operation.
func (m *c13Model) step(e *scen.Engines, pool *vsyncutil.Pool[rules.Request], held map[int]*c13Held, op c13Op, oi int, last bool, hist []int, obs string) string {
	{
		switch {
		case op.query != nil:
			var ans string
			switch op.slot {
			case 0, 1, 6, 7:
				res, ok := e.DNS.MatchRequest(op.query.DNSRequest())
				h := &c13Held{dns: res, ok: ok}
				h.snap = h.render() // taken before any derived evaluation
				held[op.slot] = h
				ans = h.snap + " rewrites=" + scen.RenderNets(res.DNSRewrites())
			case 2, 3:
				mr := e.Eng.MatchRequest(rules.NewRequest(op.query.URL, op.query.Src, op.query.Type))
				ans = scen.RenderMatchingResult(mr)
				h := &c13Held{mr: mr}
				h.snap = h.render()
				held[op.slot] = h
			case 4, 5:
				cr := e.Eng.GetCosmeticResult(op.query.Host, op.query.Option)
				ans = scen.RenderCosmetic(cr)
				h := &c13Held{cos: &cr}
				h.snap = h.render()
				held[op.slot] = h
			default:
				ans = e.Answer(*op.query)
			}
			if last {
				obs = ans
				if ans != m.expected[oi] {
					m.violate("answer-equals-fresh-engine", map[string]any{"query": op.name, "file": m.file},
						fmt.Sprintf("%s answers %s after this history, %s on a fresh engine", op.name, ans, m.expected[oi]), hist)
				}
			}
		case op.deriv == "rewrites":
			if h := held[op.on]; h != nil {
				a := scen.RenderNets(h.dns.DNSRewrites())
				b := scen.RenderNets(h.dns.DNSRewrites())
				obs = a
				if a != b && last {
					m.violate("derived-evaluation-repeatable", map[string]any{"op": op.name}, "DNSRewrites() gives "+a+" then "+b, hist)
				}
			}
		case op.deriv == "dnsbasic":
			if h := held[op.on]; h != nil {
				a := scen.RenderNet(rules.GetDNSBasicRule(h.dns.NetworkRules))
				b := scen.RenderNet(rules.GetDNSBasicRule(h.dns.NetworkRules))
				obs = a
				if a != b && last {
					m.violate("derived-evaluation-repeatable", map[string]any{"op": op.name}, "GetDNSBasicRule gives "+a+" then "+b, hist)
				}
			}
		case op.deriv == "rewritesall":
			if h := held[op.on]; h != nil {
				obs = scen.RenderNets(h.dns.DNSRewritesAll())
			}
		case op.deriv == "basic":
			if h := held[op.on]; h != nil {
				o1 := h.mr.GetCosmeticOption()
				b1 := scen.RenderNet(h.mr.GetBasicResult())
				o2 := h.mr.GetCosmeticOption()
				b2 := scen.RenderNet(h.mr.GetBasicResult())
				obs = b1 + fmt.Sprint(o1)
				if (o1 != o2 || b1 != b2) && last {
					m.violate("derived-evaluation-repeatable", map[string]any{"op": op.name}, fmt.Sprintf("GetCosmeticOption/GetBasicResult give %v/%s, then %v/%s on the same result", o1, b1, o2, b2), hist)
				}
			}
		case op.deriv == "poison":
			urlfilter.VerifDNSPoolRequest(e.DNS, func(r *rules.Request) {
				*r = rules.Request{ClientIP: mustAddr("10.0.0.1"), ClientName: "laptop", URL: "http://poison.test/x", URLLowerCase: "http://poison.test/x",
					Hostname: "poison.test", Domain: "poison.test", SourceURL: "http://example.org/", SourceHostname: "example.org", SourceDomain: "example.org",
					SortedClientTags: []string{"pc", "phone"}, RequestType: rules.TypeScript, DNSType: 28, ThirdParty: true, IsHostnameRequest: false}
			})
		case op.deriv == "drop":
			if pool != nil {
				pool.VerifReset()
			}
		}
		// no operation may change a result object handed out earlier
		for slot, h := range held {
			if now := h.render(); now != h.snap {
				if last {
					m.violate("earlier-results-unchanged", map[string]any{"changed_by": op.name, "slot": slot},
						fmt.Sprintf("%s changed a previously returned result from %s to %s", op.name, h.snap, now), hist)
				}
				h.snap = now
			}
		}
	}
	return obs
}

// finish computes the canonical key of the hidden state.
func (m *c13Model) finish(e *scen.Engines, st *filterlist.RuleStorage, pool *vsyncutil.Pool[rules.Request], held map[int]*c13Held, obs string) statespace.Outcome {
	var sb strings.Builder
	keys := filterlist.VerifCacheKeys(st)
	for _, k := range keys {
		state := 9
		if r, err := st.RetrieveRule(k); err == nil {
			if nr, ok := r.(*rules.NetworkRule); ok {
				state = rules.VerifPatternState(nr)
			}
		}
		fmt.Fprintf(&sb, "%d:%d,", k, state)
	}
	n2, _ := urlfilter.VerifEngineParts(e.Eng)
	fmt.Fprintf(&sb, "|seq%v%v%v", urlfilter.VerifNetworkEngineSeqStates(e.Net), urlfilter.VerifNetworkEngineSeqStates(urlfilter.VerifDNSNetworkEngine(e.DNS)), urlfilter.VerifNetworkEngineSeqStates(n2))
	if pool != nil {
		sb.WriteString("|pool")
		for _, r := range pool.VerifStack() {
			sb.WriteString(c13RenderReq(r))
		}
	}
	enabled := make([]bool, len(m.ops))
	for i, op := range m.ops {
		enabled[i] = op.query != nil || op.on < 0 || held[op.on] != nil
	}
	for slot := 0; slot < 8; slot++ {
		if h := held[slot]; h != nil {
			fmt.Fprintf(&sb, "|held%d:%s", slot, h.snap)
		}
	}
	return statespace.Outcome{Key: sb.String(), Enabled: enabled, Observation: obs}
}

func init() {
	register("C13", "model_checking", func(c *Ctx) {
		scen.FileDir = os.Getenv("VERIF_WORK")
		shim.Deterministic = true
		shim.DeadlockWait = 5 * time.Second
		defer func() { shim.Deterministic = false; shim.DeadlockWait = 0 }()
		if c.Replay != nil {
			if t, ok := c.Replay["cache_fill"].(float64); ok {
				c13CacheSizes(c, int(t))
				return
			}
		}
		ops := c13Ops()
		total := statespace.Stats{}
		var statsOut []map[string]any
		var mu sync.Mutex
		_ = mu
		for _, file := range []bool{false, true} {
			m := &c13Model{c: c, file: file, ops: ops}
			// expected answers: each query on its own fresh engine
			m.expected = make([]string, len(ops))
			for i, op := range ops {
				if op.query == nil {
					continue
				}
				e, st, _ := scen.Build(c13Lists, file)
				switch op.slot {
				case 0, 1:
					res, ok := e.DNS.MatchRequest(op.query.DNSRequest())
					m.expected[i] = scen.RenderDNSResult(res, ok) + " rewrites=" + scen.RenderNets(res.DNSRewrites())
				case 4, 5:
					m.expected[i] = scen.RenderCosmetic(e.Eng.GetCosmeticResult(op.query.Host, op.query.Option))
				case 2, 3:
					m.expected[i] = scen.RenderMatchingResult(e.Eng.MatchRequest(rules.NewRequest(op.query.URL, op.query.Src, op.query.Type)))
				default:
					m.expected[i] = e.Answer(*op.query)
				}
				st.Close()
			}
			if c.Replay != nil {
				if f, _ := c.Replay["file"].(bool); f != file {
					continue
				}
				var hist []int
				for _, v := range c.Replay["history"].([]any) {
					hist = append(hist, int(v.(float64)))
				}
				for n := 1; n <= len(hist); n++ {
					m.run(hist[:n])
				}
				return
			}
			model := statespace.Model{NOps: len(ops), Run: m.run}
			// guard pass: every history up to depth 2 (quick) / 3 (thorough) without de-duplication
			gd := 2
			if c.Thorough() {
				gd = 3
			}
			g := statespace.BFS(model, gd, false, c.Workers, c.Deadline)
			// main pass: de-duplicated search to the fixpoint (or the depth bound)
			maxDepth := 0 // thorough: until the frontier is empty (fixpoint); the deadline guards it
			if !c.Thorough() {
				maxDepth = 4 // quick: every history of up to 4 operations (de-duplicated), String-backed; 3 File-backed
				if file {
					maxDepth = 3
				}
			}
			s := statespace.BFS(model, maxDepth, true, c.Workers, c.Deadline)
			total.States += s.States
			total.Transitions += s.Transitions + g.Transitions
			if s.MaxDepth > total.MaxDepth {
				total.MaxDepth = s.MaxDepth
			}
			total.DistinctOutcomes += s.DistinctOutcomes
			statsOut = append(statsOut, map[string]any{"backing": map[bool]string{false: "string", true: "file"}[file], "states": s.States, "transitions": s.Transitions,
				"max_depth": s.MaxDepth, "fixpoint": s.Fixpoint, "deadline_hit": s.DeadlineHit, "states_per_depth": s.PerDepth, "distinct_observations": s.DistinctOutcomes,
				"non_dedup_guard_depth": gd, "non_dedup_guard_histories": g.States, "non_dedup_deadline_hit": g.DeadlineHit})
			if !file {
				c.Run.Sample(map[string]any{"history": []string{ops[1].name, ops[len(ops)-2].name, ops[4].name}, "checked": "last answer equals the fresh-engine answer; no held result changed"})
				c.Run.Sample(map[string]any{"history": []string{ops[3].name, ops[len(ops)-6].name, ops[3].name, ops[len(ops)-5].name}})
			}
		}
		// repetition layer: every query 40 times in a row on one engine, and the
		// whole query list 12 times round-robin: each answer equals the fresh one
		// (something that happens on every Nth call, or from the Nth call on, shows)
		var repEvals int64
		for _, file := range []bool{false, true} {
			m := &c13Model{c: c, file: file, ops: ops}
			e, st, _ := scen.Build(c13Lists, file)
			fresh := map[int]string{}
			for oi, op := range ops {
				if op.query == nil {
					continue
				}
				e2, st2, _ := scen.Build(c13Lists, file)
				fresh[oi] = e2.Answer(*op.query)
				st2.Close()
			}
			ask := func(oi, round int, how string) bool {
				repEvals++
				if got := e.Answer(*ops[oi].query); got != fresh[oi] {
					m.violate("answer-equals-fresh-engine", map[string]any{"query": ops[oi].name, "file": file, "repetition": how},
						fmt.Sprintf("%s, asked for the %dth time (%s): %s; a fresh engine answers %s", ops[oi].name, round+1, how, got, fresh[oi]), []int{oi})
					return false
				}
				return true
			}
		rep:
			for oi, op := range ops {
				if op.query == nil {
					continue
				}
				for round := 0; round < 40; round++ {
					if !ask(oi, round, "in a row") {
						break rep
					}
				}
			}
			for round := 0; round < 12; round++ {
				for oi, op := range ops {
					if op.query != nil && !ask(oi, round, "round-robin over all queries") {
						round = 12
						break
					}
				}
			}
			st.Close()
		}
		c.Run.Set("repetition_layer_evaluations", repEvals)
		cfEvals, cfStates := c13CacheSizes(c, -1)
		c.Run.Set("cache_fill_states", cfStates)
		c.Run.Set("cache_fill_evaluations", cfEvals)
		fix, complete := true, true
		for _, s := range statsOut {
			if f, _ := s["fixpoint"].(bool); !f {
				fix = false
			}
			if d, _ := s["deadline_hit"].(bool); d {
				complete = false
			}
			if d, _ := s["non_dedup_deadline_hit"].(bool); d {
				complete = false
			}
		}
		c.Run.Set("per_backing", statsOut)
		c.Run.Set("states", total.States)
		c.Run.Set("transitions", total.Transitions)
		c.Run.Set("traces_validated_against_impl", total.Transitions)
		c.Run.Set("max_depth", int64(total.MaxDepth))
		c.Run.Set("fixpoint", fix)
		// exhaustive: every history within the stated depth bound was explored (no
		// deadline hit); fixpoint: the frontier became empty, i.e. every history of
		// any length is covered
		c.Run.Set("exhaustive", complete)
		if !c.Thorough() {
			c.Run.Set("depth_bound", "4 (String-backed), 3 (File-backed)")
		} else {
			c.Run.Set("depth_bound", "none (until the frontier is empty or the deadline)")
		}
		c.Run.Set("operations", int64(len(ops)))
		c.Run.Set("explanation", "every transition is executed on the real engines (history replayed on fresh engines plus one operation); states are canonical keys of cache contents, per-rule pattern states, pool contents and held result objects")
		c.Run.Assumption("the canonical key covers all mutable state reachable from an engine after construction (rule cache, lazily compiled pattern + invalid flag, request pool); the non-de-duplicated guard pass covers every history up to its depth regardless of the key")
		c.Run.Assumption("the request pool is the deterministic LIFO shim; sync.Pool's freedom to drop objects is modelled by the explicit 'pool emptied' step")
	})
}
