package props

import (
	"fmt"
	"os"
	"path/filepath"
	"strings"

	"github.com/AdguardTeam/urlfilter"
	"github.com/AdguardTeam/urlfilter/filterlist"
	"github.com/AdguardTeam/urlfilter/rules"

	"verif/ev"
)

// C13, cache-fill layer: start from non-initial states the short histories of
// the search never reach.  The rule cache of the storage is filled, one rule per
// query, to every size 2^k-2 .. 2^k+1 (k = 3..kmax); at each of these states a
// set of probe queries (a rule whose index key occurs twice in the URL, another
// rule's key in between; ten rules for one name; host rules) is asked twice and
// compared with the answer of a fresh engine.
func c13CacheSizes(c *Ctx, only int) (evals, states int64) {
	kmax := 11
	if c.Thorough() {
		kmax = 13
	}
	nFill := 1<<kmax + 8
	var sb strings.Builder
	sb.WriteString("! cache-fill list\n||abcde.abcde.zz^\n||bcde.abq.zz^\n||abcde.abcde.zz^$dnsrewrite=1.2.3.4\n@@||abcde.abcde.zz^$dnsrewrite=9.9.9.9\n")
	sb.WriteString("||many.zz^\n||many.zz^$important\n||many.zz^$dnstype=A\n||many.zz^$ctag=~tv\n0.0.0.0 many.zz\n0.0.0.0 host.zz alias.zz\n/twice$domain=many.zz\n")
	for i := 0; i < nFill; i++ {
		fmt.Fprintf(&sb, "||f%05d.fill.zz^\n", i)
	}
	text := sb.String()
	type probe struct {
		name string
		ask  func(ne *urlfilter.NetworkEngine, de *urlfilter.DNSEngine) string
	}
	netAll := func(u, src string) func(*urlfilter.NetworkEngine, *urlfilter.DNSEngine) string {
		return func(ne *urlfilter.NetworkEngine, _ *urlfilter.DNSEngine) string {
			return fmt.Sprint(netTexts(ne.MatchAll(rules.NewRequest(u, src, rules.TypeScript))))
		}
	}
	dns := func(h string) func(*urlfilter.NetworkEngine, *urlfilter.DNSEngine) string {
		return func(_ *urlfilter.NetworkEngine, de *urlfilter.DNSEngine) string {
			res, ok := de.MatchRequest(&urlfilter.DNSRequest{Hostname: h, DNSType: 1})
			var hosts []string
			for _, r := range res.HostRulesV4 {
				hosts = append(hosts, r.RuleText)
			}
			return fmt.Sprintf("%v rule=%s all=%v hosts=%v rewrites=%v", ok, renderNetText(res.NetworkRule), netTexts(res.NetworkRules), hosts, netTexts(res.DNSRewrites()))
		}
	}
	probes := []probe{
		{"MatchAll(http://abcde.abcde.zz/)", netAll("http://abcde.abcde.zz/", "")},
		{"DNS abcde.abcde.zz", dns("abcde.abcde.zz")},
		{"MatchAll(http://many.zz/twice/twice?many.zz) from many.zz", netAll("http://many.zz/twice/twice?many.zz", "http://many.zz/")},
		{"DNS many.zz", dns("many.zz")},
		{"DNS alias.zz", dns("alias.zz")},
	}
	build := func(file bool) (*filterlist.RuleStorage, func()) {
		if !file {
			return stringStorage(text), func() {}
		}
		p := filepath.Join(os.Getenv("VERIF_WORK"), fmt.Sprintf("c13cache-%d.txt", os.Getpid()))
		if err := os.WriteFile(p, []byte(text), 0o644); err != nil {
			panic(HarnessError(err.Error()))
		}
		fl, err := filterlist.NewFileRuleList(0, p, false)
		if err != nil {
			panic(HarnessError(err.Error()))
		}
		st, err := filterlist.NewRuleStorage([]filterlist.RuleList{fl})
		if err != nil {
			panic(HarnessError(err.Error()))
		}
		return st, func() { _ = os.Remove(p) }
	}
	backings := []bool{false}
	if c.Thorough() {
		backings = []bool{false, true}
	}
	for _, file := range backings {
		// fresh-engine answers, one engine per probe
		want := make([]string, len(probes))
		for i, p := range probes {
			st, rm := build(file)
			want[i] = p.ask(urlfilter.NewNetworkEngine(st), urlfilter.NewDNSEngine(st))
			st.Close()
			rm()
		}
		for k := 3; k <= kmax; k++ {
			for d := -2; d <= 1; d++ {
				target := 1<<k + d
				if only >= 0 && target != only {
					continue
				}
				for first := range probes {
					st, rm := build(file)
					ne, de := urlfilter.NewNetworkEngine(st), urlfilter.NewDNSEngine(st)
					size := 0
					for i := 0; i < nFill && size < target; i++ {
						ne.MatchAll(rules.NewRequest(fmt.Sprintf("http://f%05d.fill.zz/", i), "", rules.TypeScript))
						size = len(filterlist.VerifCacheKeys(st))
					}
					states++
					// every probe, starting with a different one (the first one meets the cache at the target size)
					for round := 0; round < 2; round++ {
						for j := range probes {
							pi := (first + j) % len(probes)
							got := probes[pi].ask(ne, de)
							evals++
							if got != want[pi] {
								c.Run.Violate(ev.Violation{Pred: "answer-independent-of-history", Sig: map[string]any{"cache_fill": target, "probe": probes[pi].name},
									What:   fmt.Sprintf("list of %d rules (file-backed: %v); after %d one-rule queries (rule cache holds %d rules when the probes start, first probe %s) %s answers %s; a fresh engine answers %s", nFill+11, file, target, size, probes[first].name, probes[pi].name, clip(got), clip(want[pi])),
									Replay: map[string]any{"cache_fill": target}})
								st.Close()
								rm()
								return evals, states
							}
						}
					}
					st.Close()
					rm()
				}
			}
		}
	}
	return evals, states
}
