package props

import (
	"bytes"
	"fmt"
	"os"
	"os/exec"
	"path/filepath"
	"strconv"
	"strings"
	"time"

	"github.com/AdguardTeam/urlfilter/filterlist"
	"github.com/AdguardTeam/urlfilter/rules"
	shim "github.com/AdguardTeam/urlfilter/verifshim"

	"verif/ev"
	"verif/scen"
	"verif/sched"
)

// C14 — concurrent queries are race-free and sequentially consistent (E1).
//
// job = scenario x backing {string,file} x cache {cold,warm}; each job runs in
// its own worker process (GOMAXPROCS=1) and explores every schedule with at
// most B preemptions, B iterated 0..bound.

type c14Job struct {
	sc   scen.Scenario
	file bool
	warm bool
}

func c14Jobs() (jobs []c14Job) {
	for _, sc := range scen.C14Scenarios() {
		for _, file := range []bool{false, true} {
			for _, warm := range []bool{false, true} {
				jobs = append(jobs, c14Job{sc, file, warm})
			}
		}
	}
	return jobs
}

func (j c14Job) name() string {
	b, w := "string", "cold"
	if j.file {
		b = "file"
	}
	if j.warm {
		w = "warm"
	}
	return j.sc.Name + "/" + b + "/" + w
}

// c14Expected computes the sequential answers on a fresh engine.
func c14Expected(j c14Job) [][]string {
	e, st, _ := scen.Build(j.sc.Lists, j.file)
	defer st.Close()
	exp := make([][]string, len(j.sc.Threads))
	for ti, qs := range j.sc.Threads {
		for _, q := range qs {
			// fresh engine per query: C13 establishes history independence,
			// here we do not want to rely on it
			e2, st2, _ := scen.Build(j.sc.Lists, j.file)
			if j.sc.ClosedBefore {
				st2.Close()
			}
			exp[ti] = append(exp[ti], e2.Answer(q))
			st2.Close()
		}
	}
	_ = e
	return exp
}

type c14Obs struct {
	answers [][]string
	after   [][]string // answers to the same queries after the storage was closed (CloseAfter scenarios)
}

// c14Run returns the RunFn of a job and a pointer to the observation slot that
// every execution overwrites.
func c14Run(j c14Job, obs *c14Obs) sched.RunFn {
	var all []scen.Query
	for _, qs := range j.sc.Threads {
		all = append(all, qs...)
	}
	return func(s *shim.Sched) func() {
		e, st, _ := scen.BuildFor(j.sc.Lists, j.file, all)
		if j.sc.ClosedBefore {
			st.Close()
		}
		if j.warm && !j.sc.ClosedBefore {
			for _, qs := range j.sc.Threads {
				for _, q := range qs {
					e.Answer(q)
				}
			}
		}
		obs.answers = make([][]string, len(j.sc.Threads))
		for ti := range j.sc.Threads {
			ti := ti
			qs := j.sc.Threads[ti]
			obs.answers[ti] = make([]string, 0, len(qs))
			s.Go(func() {
				for _, q := range qs {
					obs.answers[ti] = append(obs.answers[ti], e.Answer(q))
				}
			})
		}
		return func() {
			st.Close()
			obs.after = nil
			if j.sc.CloseAfter && j.file {
				// the storage is closed: everything the concurrent phase returned was
				// materialised and must still be served (asked sequentially now)
				obs.after = make([][]string, len(j.sc.Threads))
				for ti, qs := range j.sc.Threads {
					for _, q := range qs {
						obs.after[ti] = append(obs.after[ti], e.Answer(q))
					}
				}
			}
		}
	}
}

func c14Hooks() {
	rules.VerifYieldHook = shim.Yield
	rules.VerifAccessHook = shim.Access
	filterlist.VerifYieldHook = shim.Yield
	filterlist.VerifAccessHook = shim.Access
}

func schedString(x *sched.Exec) string {
	var sb strings.Builder
	for i, p := range x.S.Points {
		if i > 0 {
			sb.WriteByte(' ')
		}
		fmt.Fprintf(&sb, "T%d.%s", p.Enabled[p.Chosen], p.Op)
	}
	return sb.String()
}

// c14Check evaluates the oracles on one execution and returns violations.
func c14Check(j c14Job, exp [][]string, obs *c14Obs, x *sched.Exec) []ev.Violation {
	var vs []ev.Violation
	base := func(kind, detail string) map[string]any {
		return map[string]any{"scenario": j.sc.Name, "backing": map[bool]string{false: "string", true: "file"}[j.file],
			"cache": map[bool]string{false: "cold", true: "warm"}[j.warm], "kind": kind, "detail": detail}
	}
	replay := map[string]any{"job": j.name(), "choices": x.Choices, "schedule": schedString(x)}
	if x.S.Deadlock {
		vs = append(vs, ev.Violation{Pred: "no-deadlock", Sig: base("deadlock", ""), What: j.name() + ": deadlock under schedule " + schedString(x), Replay: replay})
	}
	for ti := range obs.after {
		for k := range obs.after[ti] {
			if k < len(exp[ti]) && obs.after[ti][k] != exp[ti][k] {
				vs = append(vs, ev.Violation{Pred: "materialised-rules-served-after-close", Sig: base("after-close", j.sc.Threads[ti][k].String()),
					What:   fmt.Sprintf("%s: after the concurrent phase and Close(), %s answers %s; sequentially (and before Close) %s; schedule %s", j.name(), j.sc.Threads[ti][k], obs.after[ti][k], exp[ti][k], schedString(x)),
					Replay: replay})
			}
		}
	}
	if x.S.Livelock {
		vs = append(vs, ev.Violation{Pred: "no-livelock", Sig: base("livelock", ""), What: j.name() + ": step horizon exceeded", Replay: replay})
	}
	for _, t := range x.S.Threads() {
		if t.Panic != nil {
			vs = append(vs, ev.Violation{Pred: "no-panic", Sig: base("panic", fmt.Sprint(t.Panic)), What: fmt.Sprintf("%s: thread %d panicked: %v", j.name(), t.ID, t.Panic), Replay: replay})
		}
	}
	if len(vs) > 0 {
		return vs
	}
	for _, r := range x.S.Races {
		vs = append(vs, ev.Violation{Pred: "no-happens-before-race", Sig: base("race", r.Obj+"."+r.Field), What: j.name() + ": " + r.String() + " under schedule " + schedString(x), Replay: replay})
		break
	}
	for ti := range exp {
		for qi := range exp[ti] {
			got := "<missing>"
			if qi < len(obs.answers[ti]) {
				got = obs.answers[ti][qi]
			}
			if got != exp[ti][qi] {
				q := j.sc.Threads[ti][qi]
				vs = append(vs, ev.Violation{Pred: "answer-equals-sequential", Sig: base("answer", q.String()),
					What:   fmt.Sprintf("%s: thread %d %s returned %s, sequentially %s; schedule: %s", j.name(), ti, q, got, exp[ti][qi], schedString(x)),
					Replay: replay})
				return vs
			}
		}
	}
	return vs
}

func c14Worker(c *Ctx, job int) JobResult {
	jobs := c14Jobs()
	j := jobs[job]
	scen.FileDir = os.Getenv("VERIF_WORK")
	c14Hooks()
	exp := c14Expected(j)
	obs := &c14Obs{}
	run := c14Run(j, obs)
	res := JobResult{Name: j.name(), Counts: map[string]int64{}, Complete: true, Extra: map[string]any{}}
	bound := 2
	if c.Thorough() {
		bound = 3
	}
	if qb := j.sc.QuickBound; qb > 0 && !c.Thorough() {
		bound = qb
	}
	if mb := j.sc.MaxBound; mb > 0 {
		if c.Thorough() {
			mb++
		}
		if mb < bound {
			bound = mb
		}
	}
	nthreads := len(j.sc.Threads)
	unbounded := c.Thorough() && nthreads == 2 && len(j.sc.Threads[0])+len(j.sc.Threads[1]) <= 2
	outcomes := map[string]bool{}
	orders := map[string]bool{}
	var sample any
	for b := 0; ; b++ {
		eff := b
		if b > bound {
			if !unbounded {
				break
			}
			eff = 1 << 20 // unbounded pass for small two-thread scenarios
		}
		var found []ev.Violation
		st := sched.Explore(run, eff, c.Deadline, 0, func(x *sched.Exec) bool {
			outcomes[fmt.Sprint(obs.answers)] = true
			if len(orders) < 200000 {
				// order in which threads took write locks, mutexes and pool objects:
				// distinct values show that the schedules really collided differently
				var sb strings.Builder
				for _, st := range x.S.Trace {
					switch shim.OpKind(st & 0xff) {
					case shim.OpWLock, shim.OpLock, shim.OpPoolGet:
						sb.WriteByte(byte('0' + st>>8))
						sb.WriteByte(byte('a' + st&0xff))
					}
				}
				orders[sb.String()] = true
			}
			if vs := c14Check(j, exp, obs, x); len(vs) > 0 {
				// replay determinism: the same schedule must fail identically twice more
				for k := 0; k < 2; k++ {
					obs2 := &c14Obs{}
					x2 := sched.RunOne(c14Run(j, obs2), x.Choices)
					vs2 := c14Check(j, exp, obs2, x2)
					if len(vs2) != len(vs) || fmt.Sprint(x2.Choices) != fmt.Sprint(x.Choices) || (len(vs2) > 0 && vs2[0].What != vs[0].What) {
						panic(HarnessError("non-deterministic replay of schedule " + schedString(x) + " in " + j.name()))
					}
				}
				found = vs
				return false
			}
			if sample == nil && len(x.S.Points) > 0 {
				sample = map[string]any{"job": j.name(), "schedule": schedString(x), "answers": obs.answers}
			}
			return true
		})
		key := fmt.Sprintf("bound%d", b)
		if eff > bound {
			key = "unbounded"
		}
		res.Counts["schedules_"+key] = st.Executions
		res.Counts["schedules"] += st.Executions
		res.Counts["transitions"] += st.Decisions
		if int64(st.MaxPoints) > res.Counts["max_decisions_per_execution"] {
			res.Counts["max_decisions_per_execution"] = int64(st.MaxPoints)
		}
		if len(found) > 0 {
			res.Violations = found
			res.Extra["violation_found_at_bound"] = b
			break
		}
		if !st.Complete {
			res.Complete = false
			res.Extra["stopped_in_bound"] = b
			break
		}
		res.Extra["max_preemptions_completed"] = b
		if eff > bound {
			res.Extra["unbounded_completed"] = true
			break
		}
	}
	res.Counts["distinct_outcomes"] = int64(len(outcomes))
	res.Counts["distinct_sync_orders"] = int64(len(orders))
	if sample != nil {
		res.Samples = []any{sample}
	}
	return res
}

// c14RacePass builds and runs the auxiliary free-running -race pass.
func c14RacePass(c *Ctx) (ran bool, out string, err error) {
	work := os.Getenv("VERIF_WORK")
	if work == "" {
		return false, "", fmt.Errorf("VERIF_WORK not set")
	}
	bin := filepath.Join(work, "racepass")
	ovl := filepath.Join(work, "overlay-noshim.json")
	repo := os.Getenv("VERIF_REPO")
	if repo == "" {
		repo = "/repo"
	}
	args := []string{"run", "./cmd/mkoverlay", "-repo", repo, "-noshim", "-out", filepath.Join(work, "noshim")}
	if r := os.Getenv("VERIF_REPLACE"); r != "" {
		args = append(args, strings.Fields(r)...)
	}
	_ = os.MkdirAll(filepath.Join(work, "noshim"), 0o755)
	engineDir := os.Getenv("VERIF_ENGINE")
	if engineDir == "" {
		engineDir = filepath.Join(ev.Root, "engine")
	}
	mk := exec.Command("go", args...)
	mk.Dir = engineDir
	if b, e := mk.CombinedOutput(); e != nil {
		return false, string(b), fmt.Errorf("mkoverlay -noshim: %v", e)
	}
	_ = os.Rename(filepath.Join(work, "noshim", "overlay.json"), ovl)
	build := exec.Command("go", "build", "-race", "-tags", "verif", "-overlay", ovl, "-o", bin, "./cmd/racepass")
	build.Dir = engineDir
	if b, e := build.CombinedOutput(); e != nil {
		return false, string(b), fmt.Errorf("build racepass: %v", e)
	}
	iters := "150"
	if c.Thorough() {
		iters = "3000"
	}
	cmd := exec.Command(bin, iters)
	cmd.Env = append(os.Environ(), "GORACE=halt_on_error=0 exitcode=66", "VERIF_WORK="+work)
	var buf bytes.Buffer
	cmd.Stdout, cmd.Stderr = &buf, &buf
	if e := cmd.Start(); e != nil {
		return false, "", e
	}
	done := make(chan error, 1)
	go func() { done <- cmd.Wait() }()
	// a free-running deadlock does not end by itself: the pass is stopped when it
	// has used no CPU time for 90 s (it is blocked, whatever the machine load),
	// or after a generous wall-clock limit (then it merely counts as incomplete)
	limit := 15 * time.Minute
	if c.Thorough() {
		limit = 2 * time.Hour
	}
	start, lastCPU, lastChange := time.Now(), int64(-1), time.Now()
	for {
		select {
		case e := <-done:
			return true, buf.String(), e
		case <-time.After(5 * time.Second):
		}
		if cpu := procCPUTicks(cmd.Process.Pid); cpu != lastCPU {
			lastCPU, lastChange = cpu, time.Now()
		}
		switch {
		case time.Since(lastChange) > 90*time.Second:
			_ = cmd.Process.Kill()
			<-done
			return true, buf.String() + "\nBLOCKED: the free-running pass used no CPU time for 90 s and was stopped (all its goroutines wait for each other)\n", nil
		case time.Since(start) > limit:
			_ = cmd.Process.Kill()
			<-done
			return true, buf.String() + "\nINCOMPLETE: the free-running pass was stopped after " + limit.String() + "\n", nil
		}
	}
}

// procCPUTicks returns utime+stime of the process (clock ticks), -1 if unknown.
func procCPUTicks(pid int) int64 {
	b, err := os.ReadFile(fmt.Sprintf("/proc/%d/stat", pid))
	if err != nil {
		return -1
	}
	s := string(b)
	i := strings.LastIndexByte(s, ')')
	if i < 0 {
		return -1
	}
	f := strings.Fields(s[i+1:])
	if len(f) < 13 {
		return -1
	}
	u, _ := strconv.ParseInt(f[11], 10, 64)
	st, _ := strconv.ParseInt(f[12], 10, 64)
	return u + st
}

func init() {
	JobFns["C14"] = c14Worker
	register("C14", "model_checking", func(c *Ctx) {
		jobs := c14Jobs()
		if c.Replay != nil {
			name, _ := c.Replay["job"].(string)
			var choices []int
			for _, v := range c.Replay["choices"].([]any) {
				choices = append(choices, int(v.(float64)))
			}
			for _, j := range jobs {
				if j.name() != name {
					continue
				}
				scen.FileDir = os.Getenv("VERIF_WORK")
				c14Hooks()
				exp := c14Expected(j)
				obs := &c14Obs{}
				x := sched.RunOne(c14Run(j, obs), choices)
				if x.S.BadChoice || len(x.S.Points) < len(choices) {
					panic(HarnessError("the recorded schedule is not a schedule of this tree any more (decision points changed)"))
				}
				fmt.Println("replayed schedule:", schedString(x))
				for _, v := range c14Check(j, exp, obs, x) {
					fmt.Println(" ", v.What)
					c.Run.Violate(v)
				}
				return
			}
			panic(HarnessError("replay names unknown job " + name))
		}
		if !c.Thorough() {
			n := 0
			for n < len(jobs) && !jobs[n].sc.ThoroughOnly {
				n++
			}
			jobs = jobs[:n]
		}
		per := 60 * time.Second
		if c.Thorough() {
			per = 15 * time.Minute
		}
		results := runJobs(c, len(jobs), per, 1)
		complete := true
		minBound := -1
		unboundedJobs := 0
		var states int64
		perJob := map[string]any{}
		for i, r := range results {
			perJob[jobs[i].name()] = map[string]any{"schedules": r.Counts["schedules"], "complete": r.Complete, "max_preemptions_completed": r.Extra["max_preemptions_completed"], "distinct_outcomes": r.Counts["distinct_outcomes"], "distinct_sync_orders": r.Counts["distinct_sync_orders"]}
			if r.Err != "" {
				panic(HarnessError(fmt.Sprintf("job %s: %s", jobs[i].name(), r.Err)))
			}
			for k, v := range r.Counts {
				if strings.HasPrefix(k, "max_") {
					if v > c.Run.Get(k) {
						c.Run.Set(k, v)
					}
					continue
				}
				c.Run.Add(k, v)
			}
			states += r.Counts["schedules"]
			for _, v := range r.Violations {
				c.Run.Violate(v)
			}
			for _, s := range r.Samples {
				if i%5 == 0 {
					c.Run.Sample(s)
				}
			}
			if !r.Complete {
				complete = false
			}
			if mb, ok := r.Extra["max_preemptions_completed"].(float64); ok {
				if minBound == -1 || int(mb) < minBound {
					minBound = int(mb)
				}
			} else if len(r.Violations) == 0 {
				minBound = 0
			}
			if u, _ := r.Extra["unbounded_completed"].(bool); u {
				unboundedJobs++
			}
		}
		c.Run.Set("per_job", perJob)
		c.Run.Set("jobs", int64(len(jobs)))
		c.Run.Set("states", c.Run.Get("schedules"))
		c.Run.Set("traces_validated_against_impl", c.Run.Get("schedules"))
		c.Run.Set("max_preemptions_completed_all_jobs", int64(minBound))
		c.Run.Set("jobs_explored_without_preemption_bound", int64(unboundedJobs))
		c.Run.Set("exhaustive", complete)
		c.Run.Set("explanation", "states = complete controlled executions of the real engines (one per schedule); transitions = scheduling decisions taken; every execution is compared with the sequential answers and checked by the vector-clock monitor")

		// auxiliary free-running pass under the Go race detector
		if os.Getenv("VERIF_SKIP_RACEPASS") == "" {
			ran, out, err := c14RacePass(c)
			switch {
			case !ran:
				panic(HarnessError(fmt.Sprintf("race pass could not be built: %v\n%s", err, tail(out))))
			case strings.Contains(out, "WARNING: DATA RACE"):
				first := out[strings.Index(out, "WARNING: DATA RACE"):]
				loc := raceLocation(first)
				c.Run.Violate(ev.Violation{Pred: "race-detector-clean", Sig: map[string]any{"location": loc},
					What: "free-running -race pass reported a data race at " + loc, Replay: map[string]any{"racepass": true, "report": tail(first)}})
				c.Run.Set("racepass", "DATA RACE reported")
			case strings.Contains(out, "BLOCKED:"):
				c.Run.Violate(ev.Violation{Pred: "no-deadlock", Sig: map[string]any{"kind": "free-running"},
					What: "free-running pass: the goroutines of a scenario wait for each other for ever (no CPU time used for 90 s); output so far: " + tail(out), Replay: map[string]any{"racepass": true}})
				c.Run.Set("racepass", "blocked")
			case strings.Contains(out, "INCOMPLETE:"):
				c.Run.Set("racepass", "stopped at the wall-clock limit (incomplete)")
			case strings.Contains(out, "MISMATCH"):
				line := out[strings.Index(out, "MISMATCH"):]
				if i := strings.IndexByte(line, '\n'); i > 0 {
					line = line[:i]
				}
				c.Run.Violate(ev.Violation{Pred: "free-running-answer-equals-sequential", Sig: map[string]any{"line": line},
					What: "free-running pass: " + line, Replay: map[string]any{"racepass": true}})
			case err != nil:
				panic(HarnessError(fmt.Sprintf("race pass failed: %v\n%s", err, tail(out))))
			default:
				c.Run.Set("racepass", strings.TrimSpace(lastLine(out)))
			}
		}
		c.Run.Assumption("stdlib internals (regexp machine cache, os.File fd mutex, slog) are atomic steps without scheduling points")
		c.Run.Assumption("memory model: sequential consistency; weaker orderings are covered only through the happens-before race monitor on annotated locations and the auxiliary -race pass")
	})
}

func lastLine(s string) string {
	s = strings.TrimSpace(s)
	if i := strings.LastIndexByte(s, '\n'); i >= 0 {
		return s[i+1:]
	}
	return s
}

// raceLocation extracts the first repository frame of a race report.
func raceLocation(report string) string {
	for _, l := range strings.Split(report, "\n") {
		l = strings.TrimSpace(l)
		if (strings.Contains(l, "/urlfilter/") || strings.Contains(l, "/repo/")) && strings.Contains(l, ".go:") {
			if i := strings.LastIndex(l, "/"); i >= 0 {
				l = l[i+1:]
			}
			if i := strings.IndexByte(l, ' '); i > 0 {
				l = l[:i]
			}
			if i := strings.IndexByte(l, ':'); i > 0 {
				return l[:i]
			}
			return l
		}
	}
	return "unknown"
}
