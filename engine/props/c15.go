package props

import (
	"fmt"
	"sort"
	"sync"

	"github.com/AdguardTeam/urlfilter"
	"github.com/AdguardTeam/urlfilter/rules"

	"verif/enum"
	"verif/ev"
)

// C15 — cosmetic engine returns exactly the applicable, non-excepted selectors.

var c15Rules = []string{
	"##.g1",
	"~example.org##.g2",
	"example.org##.s1",
	"example.org,~sub.example.org##.s2",
	"example.com,example.org##.s3",
	"google.*##.w1",
	"example.org##.g1",
	"##.g1",
	"example.org#@#.g1",
	"sub.example.org#@#.s1",
	"google.*#@#.w1",
	"example.org#@#.s3",
	"example.com#@#.g2",
	"example.org##.s1",
	"~sub.example.org,example.org##.s4",
	"www.google.*#@#.w1",
	"sub.example.org,~example.org#@#.s1", // an exception that excludes its own permitted domain
	"example.org,~example.org##.s5",      // a rule that excludes its own permitted domain
	"a.sub.example.org##.s1",             // the same selector from a deeper domain
	"example.com,~sub.example.org#@#.g1",
	"~example.com##.g2", // same selector as the other generic rule, different exclusion
}

var c15Hosts = []string{"example.org", "sub.example.org", "a.sub.example.org", "example.com", "notexample.org", "other.net", "google.com", "www.google.co.uk", "x.google.agoogle.com"}

// c15Reference computes the expected selector sets with CosmeticRule.Match
// over all rules, as the property prescribes.
func c15Reference(rs []*rules.CosmeticRule, host string, css, generic bool) (gen, spec []string) {
	if !css {
		return nil, nil
	}
	g, s := map[string]bool{}, map[string]bool{}
	for _, r := range rs {
		if r.Whitelist || !r.Match(host) {
			continue
		}
		excepted := false
		for _, e := range rs {
			if e.Whitelist && e.Content == r.Content && e.Match(host) {
				excepted = true
				break
			}
		}
		if excepted {
			continue
		}
		if r.IsGeneric() {
			if generic {
				g[r.Content] = true
			}
		} else {
			s[r.Content] = true
		}
	}
	for k := range g {
		gen = append(gen, k)
	}
	for k := range s {
		spec = append(spec, k)
	}
	sort.Strings(gen)
	sort.Strings(spec)
	return gen, spec
}

func c15CheckSubset(c *Ctx, mask int, reversed bool) (evals int64, nontrivial bool) {
	var lines []string
	for i := range c15Rules {
		if mask&(1<<i) != 0 {
			lines = append(lines, c15Rules[i])
		}
	}
	if reversed {
		for i, j := 0, len(lines)-1; i < j; i, j = i+1, j-1 {
			lines[i], lines[j] = lines[j], lines[i]
		}
	}
	var parsed []*rules.CosmeticRule
	for _, l := range lines {
		r, err := rules.NewCosmeticRule(l, 1)
		if err != nil {
			panic(HarnessError("cosmetic alphabet rule does not parse: " + l))
		}
		parsed = append(parsed, r)
	}
	st := stringStorage(joinLines(lines) + "\n")
	ce := urlfilter.NewCosmeticEngine(st)
	en := urlfilter.NewEngine(st)
	reported := false
	for _, h := range c15Hosts {
		for flags := 0; flags < 8; flags++ {
			css, js, generic := flags&1 != 0, flags&2 != 0, flags&4 != 0
			wantG, wantS := c15Reference(parsed, h, css, generic)
			if len(wantG)+len(wantS) > 0 {
				nontrivial = true
			}
			var opt rules.CosmeticOption
			if css {
				opt |= rules.CosmeticOptionCSS
			}
			if js {
				opt |= rules.CosmeticOptionJS
			}
			if generic {
				opt |= rules.CosmeticOptionGenericCSS
			}
			for which, res := range []urlfilter.CosmeticResult{ce.Match(h, css, js, generic), en.GetCosmeticResult(h, opt)} {
				evals++
				gotG, gotS := sortedSet(res.ElementHiding.Generic), sortedSet(res.ElementHiding.Specific)
				if (!eqStrings(gotG, wantG) || !eqStrings(gotS, wantS)) && !reported {
					reported = true
					name := []string{"CosmeticEngine.Match", "Engine.GetCosmeticResult"}[which]
					// signature: the smallest sub-list that still fails is found by the caller; here the full case
					c.Run.Violate(ev.Violation{Pred: "selectors-equal-reference", Sig: map[string]any{"rules": lines, "host": h},
						What:   fmt.Sprintf("%s(%q, css=%v js=%v generic=%v) over %v: generic=%v specific=%v, expected generic=%v specific=%v", name, h, css, js, generic, lines, gotG, gotS, wantG, wantS),
						Replay: map[string]any{"mask": mask, "reversed": reversed}})
				}
				if len(res.ElementHiding.GenericExtCSS)+len(res.ElementHiding.SpecificExtCSS)+len(res.CSS.Generic)+len(res.CSS.Specific)+len(res.JS.Generic)+len(res.JS.Specific) != 0 && !reported {
					reported = true
					c.Run.Violate(ev.Violation{Pred: "other-buckets-empty", Sig: map[string]any{"rules": lines, "host": h},
						What: fmt.Sprintf("element-hiding rules %v produced content in other buckets: %s", lines, renderCosmeticLocal(res)), Replay: map[string]any{"mask": mask, "reversed": reversed}})
				}
			}
		}
	}
	return evals, nontrivial
}

func renderCosmeticLocal(c urlfilter.CosmeticResult) string { return fmt.Sprintf("%+v", c) }

func init() {
	register("C15", "exploration", func(c *Ctx) {
		if c.Replay != nil {
			mask := int(c.Replay["mask"].(float64))
			rev, _ := c.Replay["reversed"].(bool)
			c15CheckSubset(c, mask, rev)
			return
		}
		n := len(c15Rules)
		// quick: every subset of at most 5 of the rules; thorough: all 2^n subsets
		var order []int
		if c.Thorough() {
			order = make([]int, 1<<n)
			for i := range order {
				order[i] = i
			}
		} else {
			for size := 0; size <= 5; size++ {
				enum.Combinations(n, size, func(sub []int) bool {
					m := 0
					for _, i := range sub {
						m |= 1 << i
					}
					order = append(order, m)
					return true
				})
			}
		}
		limit := len(order)
		var mu sync.Mutex
		var evals, nontrivial int64
		exhaustive := true
		// smallest subsets first, so that the first violation is the minimal one
		sort.SliceStable(order, func(a, b int) bool { return popcount(order[a]) < popcount(order[b]) })
		firstViolationSize := -1
		c.parallel(limit, func(i int) {
			if c.Expired() {
				mu.Lock()
				exhaustive = false
				mu.Unlock()
				return
			}
			mask := order[i]
			mu.Lock()
			skip := firstViolationSize >= 0 && popcount(mask) > firstViolationSize+1
			mu.Unlock()
			if skip {
				// supersets of a failing minimal case add nothing; counted as not run
				mu.Lock()
				exhaustive = false
				mu.Unlock()
				return
			}
			before := c.Run.NViolations()
			var e int64
			nt := false
			for _, rev := range []bool{false, true} {
				e2, nt2 := c15CheckSubset(c, mask, rev)
				e += e2
				nt = nt || nt2
			}
			mu.Lock()
			evals += e
			if nt {
				nontrivial++
			}
			if c.Run.NViolations() > before && firstViolationSize < 0 {
				firstViolationSize = popcount(mask)
			}
			mu.Unlock()
			if mask%4099 == 0 {
				var ls []string
				for k := range c15Rules {
					if mask&(1<<k) != 0 {
						ls = append(ls, c15Rules[k])
					}
				}
				c.Run.Sample(map[string]any{"rules": ls, "hosts": c15Hosts})
			}
		})
		c.Run.Set("subsets", int64(limit))
		c.Run.Set("evaluations", evals)
		c.Run.Set("distinct_nontrivial", nontrivial)
		c.Run.Set("rule", fmt.Sprintf("%s of %d element-hiding rules and exceptions (generic, negated, multi-domain, wildcard TLD, duplicate selectors, self-excluding domains) in two line orders x %d hostnames x all 8 flag triples, through CosmeticEngine.Match and Engine.GetCosmeticResult, against CosmeticRule.Match over all rules; non-trivial = some host has a non-empty expected result", map[bool]string{false: "every subset of at most 5", true: "every subset"}[c.Thorough()], n, len(c15Hosts)))
		c.Run.Set("exhaustive", exhaustive)
		c.Run.Assumption("result buckets are compared as sets of selectors")
		c.Run.Assumption("CosmeticRule.Match is the definition of 'applies to the hostname' (its wildcard-TLD label boundary is checked under C04's domain helper)")
	})
}

func popcount(x int) int {
	n := 0
	for ; x != 0; x &= x - 1 {
		n++
	}
	return n
}
