package props

import (
	"fmt"
	"net/url"
	"sort"
	"strings"
	"sync"
	"sync/atomic"

	"github.com/AdguardTeam/urlfilter"
	"github.com/AdguardTeam/urlfilter/filterlist"
	"github.com/AdguardTeam/urlfilter/rules"

	"verif/enum"
	"verif/ev"
)

// C15 — cosmetic engine returns exactly the applicable, non-excepted selectors.

var c15Rules = []string{
	"##.g1",
	"~example.org##.g2",
	"example.org##.s1",
	"example.org,~sub.example.org##.s2",
	"example.com,example.org##.s3",
	"google.*##.w1",
	"example.org##.g1",
	"##.g1",
	"example.org#@#.g1",
	"sub.example.org#@#.s1",
	"google.*#@#.w1",
	"example.org#@#.s3",
	"example.com#@#.g2",
	"example.org##.s1",
	"~sub.example.org,example.org##.s4",
	"www.google.*#@#.w1",
	"sub.example.org,~example.org#@#.s1", // an exception that excludes its own permitted domain
	"example.org,~example.org##.s5",      // a rule that excludes its own permitted domain
	"a.sub.example.org##.s1",             // the same selector from a deeper domain
	"example.com,~sub.example.org#@#.g1",
	"~example.com##.g2", // same selector as the other generic rule, different exclusion
	`##a[href$="#@#"]`,  // marker-like sequences inside a selector
	`example.org##a[onclick*="#$#"]`,
	"## .sp", // a blank after the marker is not part of the selector
}

func init() {
	// two different rule texts with equal 32-bit hashes
	a, b := enum.CollidingTexts("##.k", 3, "")
	c15Rules = append(c15Rules, a, b)
}

var c15Hosts = []string{"example.org", "sub.example.org", "a.sub.example.org", "example.com", "notexample.org", "other.net", "google.com", "www.google.co.uk", "x.google.agoogle.com", "my_app.example.org", "1.2.3.4"}

// c15Reference computes the expected selector sets with CosmeticRule.Match
// over all rules, as the property prescribes.
func c15Reference(rs []*rules.CosmeticRule, host string, css, generic bool) (gen, spec []string) {
	if !css {
		return nil, nil
	}
	g, s := map[string]bool{}, map[string]bool{}
	for _, r := range rs {
		if r.Whitelist || !r.Match(host) {
			continue
		}
		excepted := false
		for _, e := range rs {
			if e.Whitelist && e.Content == r.Content && e.Match(host) {
				excepted = true
				break
			}
		}
		if excepted {
			continue
		}
		if r.IsGeneric() {
			if generic {
				g[r.Content] = true
			}
		} else {
			s[r.Content] = true
		}
	}
	for k := range g {
		gen = append(gen, k)
	}
	for k := range s {
		spec = append(spec, k)
	}
	sort.Strings(gen)
	sort.Strings(spec)
	return gen, spec
}

// c15Written is an element-hiding rule as written: the domain list in front of
// the marker, read without the library.
type c15Written struct {
	exception  bool
	selector   string
	permitted  []string
	restricted []string
}

func c15ParseWritten(line string) c15Written {
	var w c15Written
	// the marker is the one that starts at the first '#'
	i := strings.IndexByte(line, '#')
	n := 2
	switch {
	case i >= 0 && strings.HasPrefix(line[i:], "#@#"):
		w.exception, n = true, 3
	case i >= 0 && strings.HasPrefix(line[i:], "##"):
	default:
		panic(HarnessError("no element-hiding marker in " + line))
	}
	w.selector = strings.TrimSpace(line[i+n:])
	if i > 0 {
		for _, d := range strings.Split(line[:i], ",") {
			if strings.HasPrefix(d, "~") {
				w.restricted = append(w.restricted, d[1:])
			} else {
				w.permitted = append(w.permitted, d)
			}
		}
	}
	return w
}

func (w c15Written) applies(host string) bool {
	for _, d := range w.restricted {
		if refDomainOrSub(host, d) {
			return false
		}
	}
	if len(w.permitted) == 0 {
		return true
	}
	for _, d := range w.permitted {
		if refDomainOrSub(host, d) {
			return true
		}
	}
	return false
}

// c15WrittenReference is c15Reference over the rules as written: it does not
// depend on how the library represents a parsed rule.
func c15WrittenReference(lines []string, host string, css, generic bool) (gen, spec []string) {
	if !css {
		return nil, nil
	}
	var ws []c15Written
	for _, l := range lines {
		ws = append(ws, c15ParseWritten(l))
	}
	g, s := map[string]bool{}, map[string]bool{}
next:
	for _, r := range ws {
		if r.exception || !r.applies(host) {
			continue
		}
		for _, e := range ws {
			if e.exception && e.selector == r.selector && e.applies(host) {
				continue next
			}
		}
		if len(r.permitted) == 0 {
			if generic {
				g[r.selector] = true
			}
		} else {
			s[r.selector] = true
		}
	}
	for k := range g {
		gen = append(gen, k)
	}
	for k := range s {
		spec = append(spec, k)
	}
	sort.Strings(gen)
	sort.Strings(spec)
	return gen, spec
}

func c15CheckSubset(c *Ctx, mask int, reversed bool) (evals int64, nontrivial bool) {
	var lines []string
	for i := range c15Rules {
		if mask&(1<<i) != 0 {
			lines = append(lines, c15Rules[i])
		}
	}
	if reversed {
		for i, j := 0, len(lines)-1; i < j; i, j = i+1, j-1 {
			lines[i], lines[j] = lines[j], lines[i]
		}
	}
	var parsed []*rules.CosmeticRule
	for _, l := range lines {
		r, err := rules.NewCosmeticRule(l, 1)
		if err != nil {
			// every rule of the alphabet is a well-formed element-hiding rule: a
			// parser that rejects one drops its selector from every result
			c.Run.Violate(ev.Violation{Pred: "well-formed-rule-is-accepted", Sig: map[string]any{"rule": l},
				What: fmt.Sprintf("NewCosmeticRule(%q) fails: %v", l, err), Replay: map[string]any{"mask": mask, "reversed": reversed}})
			return 0, false
		}
		parsed = append(parsed, r)
	}
	st := stringStorage(joinLines(lines) + "\n")
	ce := urlfilter.NewCosmeticEngine(st)
	en := urlfilter.NewEngine(st)
	reported := false
	// results already handed out stay what they were while other host names are asked for
	type heldResult struct {
		what string
		res  urlfilter.CosmeticResult
		snap string
	}
	var held []heldResult
	defer func() {
		for _, hr := range held {
			if now := renderCosmeticLocal(hr.res); now != hr.snap && !reported {
				reported = true
				c.Run.Violate(ev.Violation{Pred: "returned-result-stays-unchanged", Sig: map[string]any{"rules": lines, "query": hr.what},
					What:   fmt.Sprintf("rules %v: the result of %s was %s when it was returned; after the queries for the other host names the same result object holds %s", lines, hr.what, hr.snap, now),
					Replay: map[string]any{"mask": mask, "reversed": reversed}})
			}
		}
	}()
	for _, h := range c15Hosts {
		for flags := 0; flags < 8; flags++ {
			css, js, generic := flags&1 != 0, flags&2 != 0, flags&4 != 0
			wantG, wantS := c15Reference(parsed, h, css, generic)
			if wg, ws := c15WrittenReference(lines, h, css, generic); (!eqStrings(wg, wantG) || !eqStrings(ws, wantS)) && !reported {
				reported = true
				c.Run.Violate(ev.Violation{Pred: "rule-match-equals-written-domains", Sig: map[string]any{"rules": lines, "host": h},
					What:   fmt.Sprintf("CosmeticRule.Match/IsGeneric over %v for %q (css=%v generic=%v) give generic=%v specific=%v; the domain lists as written give generic=%v specific=%v", lines, h, css, generic, wantG, wantS, wg, ws),
					Replay: map[string]any{"mask": mask, "reversed": reversed}})
			}
			if len(wantG)+len(wantS) > 0 {
				nontrivial = true
			}
			var opt rules.CosmeticOption
			if css {
				opt |= rules.CosmeticOptionCSS
			}
			if js {
				opt |= rules.CosmeticOptionJS
			}
			if generic {
				opt |= rules.CosmeticOptionGenericCSS
			}
			for which, res := range []urlfilter.CosmeticResult{ce.Match(h, css, js, generic), en.GetCosmeticResult(h, opt)} {
				evals++
				if flags == 7 || flags == 5 {
					held = append(held, heldResult{fmt.Sprintf("%s(%q, flags %03b)", []string{"CosmeticEngine.Match", "Engine.GetCosmeticResult"}[which], h, flags), res, renderCosmeticLocal(res)})
				}
				gotG, gotS := sortedSet(res.ElementHiding.Generic), sortedSet(res.ElementHiding.Specific)
				if (!eqStrings(gotG, wantG) || !eqStrings(gotS, wantS)) && !reported {
					reported = true
					name := []string{"CosmeticEngine.Match", "Engine.GetCosmeticResult"}[which]
					// signature: the smallest sub-list that still fails is found by the caller; here the full case
					c.Run.Violate(ev.Violation{Pred: "selectors-equal-reference", Sig: map[string]any{"rules": lines, "host": h},
						What:   fmt.Sprintf("%s(%q, css=%v js=%v generic=%v) over %v: generic=%v specific=%v, expected generic=%v specific=%v", name, h, css, js, generic, lines, gotG, gotS, wantG, wantS),
						Replay: map[string]any{"mask": mask, "reversed": reversed}})
				}
				if len(res.ElementHiding.GenericExtCSS)+len(res.ElementHiding.SpecificExtCSS)+len(res.CSS.Generic)+len(res.CSS.Specific)+len(res.JS.Generic)+len(res.JS.Specific) != 0 && !reported {
					reported = true
					c.Run.Violate(ev.Violation{Pred: "other-buckets-empty", Sig: map[string]any{"rules": lines, "host": h},
						What: fmt.Sprintf("element-hiding rules %v produced content in other buckets: %s", lines, renderCosmeticLocal(res)), Replay: map[string]any{"mask": mask, "reversed": reversed}})
				}
			}
		}
	}
	return evals, nontrivial
}

// c15Corpus compares the cosmetic engine over the element-hiding rules of the
// bundled real-world lists with CosmeticRule.Match over all of them, for the
// host names of the recorded requests and for domains the rules name.
func c15Corpus(c *Ctx) (nRules, nHosts, evals int64) {
	var parsed []*rules.CosmeticRule
	var lists []filterlist.RuleList
	hostSet := map[string]bool{}
	var hosts []string
	addHost := func(h string) {
		if h != "" && !hostSet[h] {
			hostSet[h] = true
			hosts = append(hosts, h)
		}
	}
	for fi, rel := range corpusFiles[:2] {
		content := corpusContent(rel)
		if content == "" {
			continue
		}
		lists = append(lists, &filterlist.StringRuleList{ID: fi + 1, RulesText: content})
		for li, line := range corpusLines(rel) {
			r, err := rules.NewRule(line, fi+1)
			cr, ok := r.(*rules.CosmeticRule)
			if err != nil || !ok || cr == nil || cr.Type != rules.CosmeticElementHiding {
				continue
			}
			parsed = append(parsed, cr)
			if len(line) > 4000 {
				// a rule longer than the scanner's buffer: a domain from its head and one from its tail
				t := strings.TrimSpace(line)
				if i := strings.Index(t, "#"); i > 0 {
					ds := strings.Split(t[:i], ",")
					for _, d := range []string{ds[0], ds[len(ds)-1]} {
						if !strings.HasPrefix(d, "~") && !strings.HasSuffix(d, ".*") {
							addHost(d)
						}
					}
				}
			}
			if li%97 == 0 {
				// a domain the rule names, and a sub-domain of it
				t := strings.TrimSpace(line)
				if i := strings.Index(t, "#"); i > 0 {
					d := strings.Split(t[:i], ",")[0]
					if !strings.HasPrefix(d, "~") && !strings.HasSuffix(d, ".*") {
						addHost(d)
						addHost("www." + d)
					}
				}
			}
		}
	}
	if len(parsed) == 0 {
		return 0, 0, 0
	}
	reqs := corpusRequests()
	for i := 0; i < len(reqs); i += 37 {
		if pu, err := url.Parse(reqs[i].URL); err == nil {
			addHost(pu.Hostname())
		}
		if pu, err := url.Parse(reqs[i].Frame); err == nil {
			addHost(pu.Hostname())
		}
	}
	limit := 80
	if c.Thorough() {
		limit = 1500
	}
	if len(hosts) > limit {
		// a fixed stride keeps both kinds of host names
		step := len(hosts)/limit + 1
		var h2 []string
		for i := 0; i < len(hosts); i += step {
			h2 = append(h2, hosts[i])
		}
		hosts = h2
	}
	st, err := filterlist.NewRuleStorage(lists)
	if err != nil {
		panic(HarnessError(err.Error()))
	}
	ce := urlfilter.NewCosmeticEngine(st)
	exceptions := map[string][]*rules.CosmeticRule{}
	for _, r := range parsed {
		if r.Whitelist {
			exceptions[r.Content] = append(exceptions[r.Content], r)
		}
	}
	var n atomic.Int64
	c.parallel(len(hosts), func(hi int) {
		if c.Expired() {
			return
		}
		h := hosts[hi]
		want := [4]map[string]bool{{}, {}, {}, {}} // generic, specific, generic ext, specific ext
		for _, r := range parsed {
			if r.Whitelist || !r.Match(h) {
				continue
			}
			excepted := false
			for _, e := range exceptions[r.Content] {
				if e.Match(h) {
					excepted = true
					break
				}
			}
			if excepted {
				continue
			}
			k := 1
			if r.IsGeneric() {
				k = 0
			}
			if r.ExtendedCSS {
				k += 2
			}
			want[k][r.Content] = true
		}
		for _, generic := range []bool{true, false} {
			res := ce.Match(h, true, true, generic)
			got := [4][]string{sortedSet(res.ElementHiding.Generic), sortedSet(res.ElementHiding.Specific), sortedSet(res.ElementHiding.GenericExtCSS), sortedSet(res.ElementHiding.SpecificExtCSS)}
			n.Add(1)
			for k := 0; k < 4; k++ {
				var w []string
				if generic || k%2 == 1 {
					for s := range want[k] {
						w = append(w, s)
					}
					sort.Strings(w)
				}
				if !eqStrings(got[k], w) {
					extra, missing := diffStrings(got[k], w)
					c.Run.Violate(ev.Violation{Pred: "corpus-selectors-equal-reference", Sig: map[string]any{"host": h, "bucket": k, "generic": generic},
						What:   fmt.Sprintf("cosmetic engine over the bundled lists, host %q (generic=%v), bucket %d: %d selectors, reference %d; not expected %q, missing %q", h, generic, k, len(got[k]), len(w), clipList(extra), clipList(missing)),
						Replay: map[string]any{"corpus": true}})
					return
				}
			}
		}
	})
	return int64(len(parsed)), int64(len(hosts)), n.Load()
}

func diffStrings(got, want []string) (extra, missing []string) {
	g, w := map[string]bool{}, map[string]bool{}
	for _, s := range got {
		g[s] = true
	}
	for _, s := range want {
		w[s] = true
	}
	for _, s := range got {
		if !w[s] {
			extra = append(extra, s)
		}
	}
	for _, s := range want {
		if !g[s] {
			missing = append(missing, s)
		}
	}
	return extra, missing
}

func clipList(l []string) []string {
	if len(l) > 3 {
		return append(append([]string{}, l[:3]...), fmt.Sprintf("…(%d)", len(l)))
	}
	return l
}

func renderCosmeticLocal(c urlfilter.CosmeticResult) string { return fmt.Sprintf("%+v", c) }

func init() {
	register("C15", "exploration", func(c *Ctx) {
		if c.Replay != nil {
			if cp, _ := c.Replay["corpus"].(bool); cp {
				c15Corpus(c)
				return
			}
			mask := int(c.Replay["mask"].(float64))
			rev, _ := c.Replay["reversed"].(bool)
			c15CheckSubset(c, mask, rev)
			return
		}
		n := len(c15Rules)
		// quick: every subset of at most 5 of the rules; thorough: all 2^n subsets
		var order []int
		{
			maxSize := 5
			if c.Thorough() {
				maxSize = 8 // (all 2^n subsets were feasible for n <= 21 only)
			}
			for size := 0; size <= maxSize; size++ {
				enum.Combinations(n, size, func(sub []int) bool {
					m := 0
					for _, i := range sub {
						m |= 1 << i
					}
					order = append(order, m)
					return true
				})
			}
		}
		limit := len(order)
		var mu sync.Mutex
		var evals, nontrivial int64
		exhaustive := true
		// smallest subsets first, so that the first violation is the minimal one
		sort.SliceStable(order, func(a, b int) bool { return popcount(order[a]) < popcount(order[b]) })
		firstViolationSize := -1
		c.parallel(limit, func(i int) {
			if c.Expired() {
				mu.Lock()
				exhaustive = false
				mu.Unlock()
				return
			}
			mask := order[i]
			mu.Lock()
			skip := firstViolationSize >= 0 && popcount(mask) > firstViolationSize+1
			mu.Unlock()
			if skip {
				// supersets of a failing minimal case add nothing; counted as not run
				mu.Lock()
				exhaustive = false
				mu.Unlock()
				return
			}
			before := c.Run.NViolations()
			var e int64
			nt := false
			for _, rev := range []bool{false, true} {
				e2, nt2 := c15CheckSubset(c, mask, rev)
				e += e2
				nt = nt || nt2
			}
			mu.Lock()
			evals += e
			if nt {
				nontrivial++
			}
			if c.Run.NViolations() > before && firstViolationSize < 0 {
				firstViolationSize = popcount(mask)
			}
			mu.Unlock()
			if mask%4099 == 0 {
				var ls []string
				for k := range c15Rules {
					if mask&(1<<k) != 0 {
						ls = append(ls, c15Rules[k])
					}
				}
				c.Run.Sample(map[string]any{"rules": ls, "hosts": c15Hosts})
			}
		})
		// a rule longer than the list scanner's 4 KiB buffer: hosts from its head and its tail
		{
			var ds []string
			for i := 0; i < 420; i++ {
				ds = append(ds, fmt.Sprintf("site%04d.test", i))
			}
			long := strings.Join(ds, ",") + "##.long"
			longExc := strings.Join(ds[200:], ",") + "#@#.long"
			lines := []string{"##.g1", long, longExc, "site0001.test##.s1"}
			var parsed []*rules.CosmeticRule
			for _, l := range lines {
				r, err := rules.NewCosmeticRule(l, 1)
				if err != nil {
					panic(HarnessError("long cosmetic rule does not parse: " + err.Error()))
				}
				parsed = append(parsed, r)
			}
			ce := urlfilter.NewCosmeticEngine(stringStorage(joinLines(lines) + "\n"))
			for _, h := range []string{"site0000.test", "site0001.test", "site0199.test", "site0200.test", "site0419.test", "www.site0419.test", "other.test"} {
				wantG, wantS := c15Reference(parsed, h, true, true)
				res := ce.Match(h, true, true, true)
				evals++
				if gotG, gotS := sortedSet(res.ElementHiding.Generic), sortedSet(res.ElementHiding.Specific); !eqStrings(gotG, wantG) || !eqStrings(gotS, wantS) {
					c.Run.Violate(ev.Violation{Pred: "selectors-equal-reference", Sig: map[string]any{"rules": "a rule of 420 domains (longer than 4 KiB), its exception for the last 220, two short rules", "host": h},
						What:   fmt.Sprintf("list with an element-hiding rule of %d bytes: CosmeticEngine.Match(%q): generic=%v specific=%v, expected generic=%v specific=%v", len(long), h, gotG, gotS, wantG, wantS),
						Replay: map[string]any{"corpus": true}})
					break
				}
			}
		}
		// domains that are public suffixes or single labels, wildcard-TLD domains of
		// several labels: the whole list, and every rule alone, for hosts on, below
		// and beside the listed domains
		{
			extra := []string{"co.uk##.p1", "com##.p2", "github.io##.p3", "lan##.p4", "maps.google.*##.m1", "a.b.shop.*##.m2", "mail.yandex.*,example.org##.m3", "github.io#@#.p3", "maps.google.*#@#.m1"}
			hosts := []string{"co.uk", "www.google.co.uk", "example.com", "com", "user.github.io", "a.user.github.io", "github.io", "printer.lan", "lan", "maps.google.com", "www.maps.google.co.uk",
				"google.com", "a.b.shop.com", "x.a.b.shop.co.uk", "b.shop.com", "mail.yandex.ru", "example.org", "other.net"}
			lists := [][]string{extra}
			for _, l := range extra {
				lists = append(lists, []string{l})
			}
			// sizes: a rule (and an exception) with nine and with seventeen domains, one of them wildcard-TLD;
			// seventy generic rules with exceptions for the 33rd, the 34th and the 65th
			for _, n := range []int{8, 16} {
				var ds []string
				for i := 0; i < n; i++ {
					ds = append(ds, fmt.Sprintf("d%02d.test", i))
				}
				ds = append(ds[:n/2], append([]string{"google.*"}, ds[n/2:]...)...)
				lists = append(lists, []string{strings.Join(ds, ",") + "##.many", "##.many"}, []string{"##.many", strings.Join(ds, ",") + "#@#.many"},
					[]string{strings.Join(ds, ",") + "##.many", "~" + strings.Join(ds, ",~") + "##.rest"})
			}
			var gens []string
			for i := 0; i < 70; i++ {
				gens = append(gens, fmt.Sprintf("##.g%02d", i))
			}
			lists = append(lists, append(append([]string{}, gens...), "example.org#@#.g32", "example.org#@#.g33", "example.org#@#.g64", "google.*#@#.g69"))
			hosts = append(hosts, "d00.test", "d15.test", "www.d07.test")
			for _, lines := range lists {
				var parsed []*rules.CosmeticRule
				for _, l := range lines {
					r, err := rules.NewCosmeticRule(l, 1)
					if err != nil {
						panic(AlphabetRejected{Text: l, Err: err})
					}
					parsed = append(parsed, r)
				}
				ce := urlfilter.NewCosmeticEngine(stringStorage(joinLines(lines) + "\n"))
				for _, h := range hosts {
					for _, generic := range []bool{true, false} {
						wantG, wantS := c15Reference(parsed, h, true, generic)
						wg, ws := c15WrittenReference(lines, h, true, generic)
						res := ce.Match(h, true, true, generic)
						evals++
						gotG, gotS := sortedSet(res.ElementHiding.Generic), sortedSet(res.ElementHiding.Specific)
						if !eqStrings(gotG, wantG) || !eqStrings(gotS, wantS) || !eqStrings(wg, wantG) || !eqStrings(ws, wantS) {
							c.Run.Violate(ev.Violation{Pred: "selectors-equal-reference", Sig: map[string]any{"rules": lines, "host": h, "generic": generic},
								What:   fmt.Sprintf("CosmeticEngine.Match(%q, generic=%v) over %v: generic=%v specific=%v; CosmeticRule.Match over all rules gives generic=%v specific=%v; the domain lists as written give generic=%v specific=%v", h, generic, lines, gotG, gotS, wantG, wantS, wg, ws),
								Replay: map[string]any{"corpus": true}})
						}
					}
				}
			}
		}
		// exceptions without a permitted domain (negated domains only, or no domain at all): whether the parser
		// takes such a line or not, the engine agrees with the rules it took, read as written
		for _, exc := range []string{"~example.org#@#.x", "#@#.x", "~example.org,~example.com#@#.x", "~sub.example.org#@#.g1"} {
			for _, with := range [][]string{nil, {"##.x"}, {"example.org##.x", "##.g1"}, {"~example.com##.x"}} {
				all := append([]string{exc}, with...)
				var lines []string
				for _, l := range all {
					if _, err := rules.NewCosmeticRule(l, 1); err == nil {
						lines = append(lines, l)
					}
				}
				ce := urlfilter.NewCosmeticEngine(stringStorage(joinLines(all) + "\n"))
				for _, h := range []string{"example.org", "sub.example.org", "example.com", "other.net"} {
					for _, generic := range []bool{true, false} {
						wg, ws := c15WrittenReference(lines, h, true, generic)
						res := ce.Match(h, true, true, generic)
						evals++
						gotG, gotS := sortedSet(res.ElementHiding.Generic), sortedSet(res.ElementHiding.Specific)
						if !eqStrings(gotG, wg) || !eqStrings(gotS, ws) {
							c.Run.Violate(ev.Violation{Pred: "selectors-equal-reference", Sig: map[string]any{"rules": all, "host": h, "generic": generic},
								What:   fmt.Sprintf("CosmeticEngine.Match(%q, generic=%v) over %v (lines the parser takes: %v): generic=%v specific=%v; the rules as written give generic=%v specific=%v", h, generic, all, lines, gotG, gotS, wg, ws),
								Replay: map[string]any{"corpus": true}})
						}
					}
				}
			}
		}
		cr, ch, cev := c15Corpus(c)
		evals += cev
		c.Run.Set("corpus_rules", cr)
		c.Run.Set("corpus_hosts", ch)
		c.Run.Set("corpus_evaluations", cev)
		c.Run.Set("subsets", int64(limit))
		c.Run.Set("evaluations", evals)
		c.Run.Set("distinct_nontrivial", nontrivial)
		c.Run.Set("rule", fmt.Sprintf("%s of %d element-hiding rules and exceptions (generic, negated, multi-domain, wildcard TLD, duplicate selectors, self-excluding domains) in two line orders x %d hostnames x all 8 flag triples, through CosmeticEngine.Match and Engine.GetCosmeticResult, against CosmeticRule.Match over all rules, which is itself compared with the domain lists as written in the rule texts; corpus layer: the element-hiding rules of the bundled lists against CosmeticRule.Match over all of them for a stride of recorded host names and rule domains; non-trivial = some host has a non-empty expected result", map[bool]string{false: "every subset of at most 5", true: "every subset of at most 8"}[c.Thorough()], n, len(c15Hosts)))
		c.Run.Set("exhaustive", exhaustive)
		c.Run.Assumption("result buckets are compared as sets of selectors")
		c.Run.Assumption("CosmeticRule.Match is the definition of 'applies to the hostname'; it is itself compared with the domain list as written in the rule text (restricted wins, then permitted, wildcard TLD through the public suffix list)")
	})
}

func popcount(x int) int {
	n := 0
	for ; x != 0; x &= x - 1 {
		n++
	}
	return n
}
