package props

import (
	"fmt"
	"sort"
	"strings"

	"github.com/AdguardTeam/urlfilter"
	"github.com/AdguardTeam/urlfilter/filterlist"
	"github.com/AdguardTeam/urlfilter/rules"

	"verif/enum"
	"verif/ev"
)

// C16 — exception modifiers only ever switch cosmetic options off.
//
// Enumerated: all 2^9 subsets of the nine exception modifiers, every subset in
// every option order (quick: orders ascending/descending for all subsets plus
// all permutations of subsets of size <= 4; thorough: all permutations of all
// subsets), as BasicRule of NewMatchingResult and through Engine.MatchRequest;
// blocking and absent basic rules; every edge of the subset lattice for
// monotonicity; all 64 values of the low six option bits through
// Engine.GetCosmeticResult.

var c16Mods = []string{"elemhide", "generichide", "jsinject", "document", "urlblock", "genericblock", "content", "extension", "important"}

func c16Disabled(mod string) rules.CosmeticOption {
	switch mod {
	case "elemhide":
		return rules.CosmeticOptionCSS | rules.CosmeticOptionGenericCSS
	case "generichide":
		return rules.CosmeticOptionGenericCSS
	case "jsinject":
		return rules.CosmeticOptionJS
	case "document":
		return rules.CosmeticOptionCSS | rules.CosmeticOptionGenericCSS | rules.CosmeticOptionJS
	}
	return 0
}

func c16Expected(mods []string) rules.CosmeticOption {
	o := rules.CosmeticOptionAll
	for _, m := range mods {
		o &^= c16Disabled(m)
	}
	return o
}

func c16RuleText(mods []string) string {
	if len(mods) == 0 {
		return "@@||example.org^"
	}
	return "@@||example.org^$" + strings.Join(mods, ",")
}

// c16Eval returns the option computed by the implementation for the ordered
// modifier list, directly and through the engine.
func c16Eval(mods []string) (direct, viaEngine rules.CosmeticOption, err error) {
	text := c16RuleText(mods)
	r, perr := rules.NewNetworkRule(text, 1)
	if perr != nil {
		return 0, 0, perr
	}
	direct = rules.NewMatchingResult([]*rules.NetworkRule{r}, nil).GetCosmeticOption()

	e := urlfilter.NewEngine(stringStorage(text + "\n"))
	req := rules.NewRequest("http://example.org/", "", rules.TypeDocument)
	viaEngine = e.MatchRequest(req).GetCosmeticOption()
	return direct, viaEngine, nil
}

func c16CheckOrdered(c *Ctx, mods []string, engine bool) rules.CosmeticOption {
	exp := c16Expected(mods)
	text := c16RuleText(mods)
	r, perr := rules.NewNetworkRule(text, 1)
	if perr != nil {
		c.Run.Add("rejected_by_parser", 1)
		return exp
	}
	got := rules.NewMatchingResult([]*rules.NetworkRule{r}, nil).GetCosmeticOption()
	c.Run.Add("evaluations", 1)
	bad := func(how string, got rules.CosmeticOption) {
		sorted := append([]string{}, mods...)
		sort.Strings(sorted)
		c.Run.Violate(ev.Violation{
			Pred:   "option-equals-all-minus-union",
			Sig:    map[string]any{"mods": sorted},
			What:   fmt.Sprintf("%s: %q gives cosmetic option %03b, expected %03b", how, text, got, exp),
			Replay: map[string]any{"mods": mods},
		})
	}
	if got != exp {
		bad("NewMatchingResult", got)
	}
	if engine {
		// the exception in a list loaded with IgnoreCosmetic, the cosmetic rules in another one
		{
			st, err := filterlist.NewRuleStorage([]filterlist.RuleList{
				&filterlist.StringRuleList{ID: 0, RulesText: "##.g\n" + text + "\n", IgnoreCosmetic: true},
				&filterlist.StringRuleList{ID: 1, RulesText: "##.g2\nexample.org##.s\n"},
			})
			if err != nil {
				panic(HarnessError(err.Error()))
			}
			res := urlfilter.NewEngine(st).MatchRequest(rules.NewRequest("http://example.org/", "", rules.TypeDocument))
			c.Run.Add("evaluations", 1)
			if g := res.GetCosmeticOption(); g != exp {
				bad("Engine.MatchRequest (exception in a list loaded with IgnoreCosmetic)", g)
			}
		}
		e := urlfilter.NewEngine(stringStorage(text + "\n"))
		// no referrer, a same-site referrer (the exception then also matches the
		// referrer as a document) and a foreign referrer
		for _, src := range []string{"", "http://example.org/page", "http://other.test/"} {
			req := rules.NewRequest("http://example.org/", src, rules.TypeDocument)
			res := e.MatchRequest(req)
			c.Run.Add("evaluations", 1)
			if res.BasicRule == nil || res.BasicRule.RuleText != text {
				bad(fmt.Sprintf("Engine.MatchRequest (referrer %q) did not select the exception as basic rule", src), 0)
			} else if g := res.GetCosmeticOption(); g != exp {
				bad(fmt.Sprintf("Engine.MatchRequest (referrer %q)", src), g)
			}
		}
		// the same exception written with an un-anchored pattern, on an engine that has answered a
		// host-name request for the site and a request for another page before the document is asked for
		text2 := strings.Replace(text, "@@||example.org^", "@@example.org*/embed/", 1)
		if _, err := rules.NewNetworkRule(text2, 1); err == nil {
			for _, before := range [][]*rules.Request{nil, {rules.NewRequestForHostname("example.org")}, {rules.NewRequest("http://example.org/other", "", rules.TypeDocument), rules.NewRequestForHostname("example.org")}} {
				e2 := urlfilter.NewEngine(stringStorage(text2 + "\n"))
				for _, q := range before {
					e2.MatchRequest(q)
				}
				res := e2.MatchRequest(rules.NewRequest("https://example.org/video/embed/", "", rules.TypeDocument))
				c.Run.Add("evaluations", 1)
				if res.BasicRule == nil || res.BasicRule.RuleText != text2 {
					text = text2
					bad(fmt.Sprintf("Engine.MatchRequest after %d earlier requests on the engine did not select the exception as basic rule", len(before)), 0)
				} else if g := res.GetCosmeticOption(); g != exp {
					text = text2
					bad(fmt.Sprintf("Engine.MatchRequest after %d earlier requests on the engine", len(before)), g)
				}
			}
		}
	}
	return got
}

func init() {
	register("C16", "exploration", func(c *Ctx) {
		if c.Replay != nil {
			var mods []string
			for _, m := range c.Replay["mods"].([]any) {
				mods = append(mods, m.(string))
			}
			if hh, _ := c.Replay["handler_history"].(bool); hh {
				c16HandlerHistory(c)
				return
			}
			if ph, _ := c.Replay["proxy_history"].(bool); ph {
				c16ProxyHistory(c)
				return
			}
			if px, _ := c.Replay["proxy"].(bool); px {
				c16ProxyLayer(c, mods)
				return
			}
			c16CheckOrdered(c, mods, true)
			return
		}
		n := len(c16Mods)
		distinct := map[string]bool{}
		val := make([]rules.CosmeticOption, 1<<n)
		permLimit := 4
		if c.Thorough() {
			permLimit = n
		}
		exhaustive := true
		for mask := 0; mask < 1<<n; mask++ {
			var mods []string
			for i := 0; i < n; i++ {
				if mask&(1<<i) != 0 {
					mods = append(mods, c16Mods[i])
				}
			}
			// ascending and descending order, through the engine as well
			val[mask] = c16CheckOrdered(c, mods, true)
			rev := append([]string{}, mods...)
			for i, j := 0, len(rev)-1; i < j; i, j = i+1, j-1 {
				rev[i], rev[j] = rev[j], rev[i]
			}
			c16CheckOrdered(c, rev, true)
			distinct[fmt.Sprint(mods)] = true
			if len(mods) >= 2 && len(mods) <= permLimit {
				if c.Expired() {
					exhaustive = false
					continue
				}
				enum.Permutations(len(mods), func(p []int) bool {
					pm := make([]string, len(mods))
					for i, j := range p {
						pm[i] = mods[j]
					}
					c16CheckOrdered(c, pm, false)
					return true
				})
			}
			if mask%97 == 0 {
				c.Run.Sample(map[string]any{"rule": c16RuleText(mods), "expected_option": c16Expected(mods)})
			}
		}
		// the same subsets with neutral modifiers written before and after them (rules of up to twelve options)
		// option lists of every length from 1 to 17 and of 33, in every rotation, so that each position of each
		// length is taken by a modifier that matters at least once
		neutral := []string{"match-case", "~third-party", "domain=example.org"}
		var pads [][]string
		for _, k := range []int{1, 2, 3, 4, 5, 6, 7, 8, 24} {
			var pad []string
			for i := 0; i < k; i++ {
				pad = append(pad, neutral[i%len(neutral)])
			}
			pads = append(pads, pad)
		}
		for mask := 0; mask < 1<<n; mask++ {
			var mods []string
			for i := 0; i < n; i++ {
				if mask&(1<<i) != 0 {
					mods = append(mods, c16Mods[i])
				}
			}
			exp := c16Expected(mods)
			for _, pad := range pads {
				base := append(append([]string{}, mods...), pad...)
				for rot := 0; rot < len(base); rot++ {
					all := append(append([]string{}, base[rot:]...), base[:rot]...)
					r, perr := rules.NewNetworkRule(c16RuleText(all), 1)
					if perr != nil {
						c.Run.Violate(ev.Violation{Pred: "option-equals-all-minus-union", Sig: map[string]any{"mods": mods, "padding": len(pad), "rotation": rot, "rejected": true},
							What:   fmt.Sprintf("%q (%d options) is rejected: %v", c16RuleText(all), len(all), perr),
							Replay: map[string]any{"mods": all}})
						continue
					}
					c.Run.Add("evaluations", 1)
					if got := rules.NewMatchingResult([]*rules.NetworkRule{r}, nil).GetCosmeticOption(); got != exp {
						c.Run.Violate(ev.Violation{Pred: "option-equals-all-minus-union", Sig: map[string]any{"mods": mods, "padding": len(pad), "rotation": rot},
							What:   fmt.Sprintf("%q (%d options) gives cosmetic option %03b, expected %03b", c16RuleText(all), len(all), got, exp),
							Replay: map[string]any{"mods": all}})
					}
				}
			}
		}
		// rules longer than one 4 KiB read block (a long $denyallow list first, in the middle or last among the
		// modifiers) served from file-backed lists of a deployment-shaped storage through Engine.MatchRequest
		{
			var dl []string
			for i := 0; len(strings.Join(dl, "|")) < 4200; i++ {
				dl = append(dl, fmt.Sprintf("pad%04d.test", i))
			}
			long := "denyallow=" + strings.Join(dl, "|")
			for mask := 1; mask < 1<<n; mask++ {
				var mods []string
				for i := 0; i < n; i++ {
					if mask&(1<<i) != 0 {
						mods = append(mods, c16Mods[i])
					}
				}
				if mask%3 != 0 && !c.Thorough() {
					continue
				}
				exp := c16Expected(mods)
				pos := mask % (len(mods) + 1)
				all := append(append(append([]string{}, mods[:pos]...), long), mods[pos:]...)
				text := c16RuleText(all)
				st, release := deployStorage([]string{"||other.test^", text}, true)
				got := urlfilter.NewEngine(st).MatchRequest(rules.NewRequest("http://example.org/", "", rules.TypeDocument)).GetCosmeticOption()
				release()
				c.Run.Add("evaluations", 1)
				if got != exp {
					c.Run.Violate(ev.Violation{Pred: "option-equals-all-minus-union", Sig: map[string]any{"mods": mods, "long_rule_from_file": true},
						What:   fmt.Sprintf("exception with modifiers %v and a $denyallow list of %d bytes at position %d (rule of %d bytes) in a file-backed list: Engine.MatchRequest gives cosmetic option %03b, expected %03b", mods, len(long), pos, len(text), got, exp),
						Replay: map[string]any{"mods": mods}})
				}
			}
		}
		// an exception, its $badfilter twin in front of it and an unrelated exception behind: the same list of rule
		// objects evaluated twice (the list is the caller's, e.g. what MatchAll returned)
		for mask := 1; mask < 1<<n; mask++ {
			var full []string
			for i := 0; i < n; i++ {
				if mask&(1<<i) != 0 {
					full = append(full, c16Mods[i])
				}
			}
			texts := []string{c16RuleText(append(append([]string{}, full...), "badfilter")), c16RuleText(full), "@@||example.org^$jsinject"}
			if len(full) == 1 && full[0] == "jsinject" {
				continue
			}
			list := []*rules.NetworkRule{mustNetRule(texts[0], 1), mustNetRule(texts[1], 1), mustNetRule(texts[2], 1)}
			o1 := rules.NewMatchingResult(list, nil).GetCosmeticOption()
			o2 := rules.NewMatchingResult(list, nil).GetCosmeticOption()
			c.Run.Add("evaluations", 2)
			if exp := c16Expected([]string{"jsinject"}); o1 != exp || o2 != exp {
				c.Run.Violate(ev.Violation{Pred: "option-equals-all-minus-union", Sig: map[string]any{"mods": full, "badfilter_twin": true, "route": "same list twice"},
					What:   fmt.Sprintf("NewMatchingResult over %v evaluated twice on the same list gives cosmetic options %03b then %03b, expected %03b both times (the first exception is disabled by its twin)", texts, o1, o2, exp),
					Replay: map[string]any{"mods": full}})
			}
		}
		// a $badfilter exception with a strict subset of another exception's
		// modifiers is not its twin: the option is the one of the full exception
		cos := []string{"elemhide", "generichide", "jsinject", "urlblock", "important"}
		for mask := 1; mask < 1<<len(cos); mask++ {
			for sub := (mask - 1) & mask; ; sub = (sub - 1) & mask {
				var full, part []string
				for i, m := range cos {
					if mask&(1<<i) != 0 {
						full = append(full, m)
					}
					if sub&(1<<i) != 0 {
						part = append(part, m)
					}
				}
				lines := []string{c16RuleText(full), c16RuleText(append(append([]string{}, part...), "badfilter"))}
				for _, order := range [][]string{lines, {lines[1], lines[0]}} {
					// directly, the same list of rule objects evaluated twice (what a caller of MatchAll may do)
					list := []*rules.NetworkRule{mustNetRule(order[0], 1), mustNetRule(order[1], 1), mustNetRule("@@||example.org^$extension", 1)}
					o1 := rules.NewMatchingResult(list, nil).GetCosmeticOption()
					o2 := rules.NewMatchingResult(list, nil).GetCosmeticOption()
					c.Run.Add("evaluations", 2)
					if exp := c16Expected(full); o1 != exp || o2 != exp {
						c.Run.Violate(ev.Violation{Pred: "option-equals-all-minus-union", Sig: map[string]any{"mods": full, "badfilter_subset": part, "route": "same list twice"},
							What:   fmt.Sprintf("NewMatchingResult over %v evaluated twice on the same list gives cosmetic options %03b then %03b, expected %03b both times", append(append([]string{}, order...), "@@||example.org^$extension"), o1, o2, exp),
							Replay: map[string]any{"mods": full}})
					}
					res := urlfilter.NewEngine(stringStorage(joinLines(order) + "\n")).MatchRequest(rules.NewRequest("http://example.org/", "", rules.TypeDocument))
					c.Run.Add("evaluations", 1)
					if g, exp := res.GetCosmeticOption(), c16Expected(full); g != exp {
						c.Run.Violate(ev.Violation{Pred: "option-equals-all-minus-union", Sig: map[string]any{"mods": full, "badfilter_subset": part},
							What:   fmt.Sprintf("Engine.MatchRequest over %q gives cosmetic option %03b, expected %03b (the $badfilter rule is not the twin of the exception)", order, g, exp),
							Replay: map[string]any{"mods": full}})
					}
				}
				if sub == 0 {
					break
				}
			}
		}
		// monotone under adding a modifier (every edge of the subset lattice)
		edges := int64(0)
		for mask := 0; mask < 1<<n; mask++ {
			for i := 0; i < n; i++ {
				if mask&(1<<i) != 0 {
					continue
				}
				edges++
				a, b := val[mask], val[mask|1<<i]
				if b&^a != 0 {
					var mods []string
					for k := 0; k < n; k++ {
						if mask&(1<<k) != 0 {
							mods = append(mods, c16Mods[k])
						}
					}
					c.Run.Violate(ev.Violation{
						Pred:   "monotone-under-adding-modifier",
						Sig:    map[string]any{"mods": mods, "added": c16Mods[i]},
						What:   fmt.Sprintf("adding %s to %v re-enables options: %03b -> %03b", c16Mods[i], mods, a, b),
						Replay: map[string]any{"mods": append(mods, c16Mods[i])},
					})
				}
			}
		}
		c.Run.Set("lattice_edges_checked", edges)

		// the filtering proxy acts on the option the modifiers define
		proxyMods := []string{"elemhide", "generichide", "jsinject", "document", "important", "content"}
		if c.Thorough() {
			proxyMods = c16Mods
		}
		pe, skipped := c16ProxyLayer(c, proxyMods)
		c.Run.Set("proxy_layer_requests", pe)
		c.Run.Add("evaluations", pe)
		if skipped == "" {
			var he int64
			he, skipped = c16ProxyHistory(c)
			c.Run.Set("proxy_history_requests", he)
			c.Run.Add("evaluations", he)
		}
		if skipped != "" {
			c.Run.Set("proxy_layer_skipped", skipped)
			exhaustive = false
		} else {
			c.Run.Set("proxy_layer", fmt.Sprintf("real proxy.Server on 127.0.0.1 in front of a local origin: every subset of %v on an exception rule for the origin x 4 client styles (request type known before / only from the response); every ordered pair of 6 pages of one host with different path-restricted exception verdicts through one proxy instance (first, second, first again)", proxyMods))
		}

		// the content-script handler: responses built and written out in every interleaving
		hh := c16HandlerHistory(c)
		c.Run.Set("handler_history_bodies", hh)
		c.Run.Add("evaluations", hh)

		// non-exception and absent basic rules
		for _, text := range []string{"||example.org^", "||example.org^$important", "||example.org^$third-party", "||example.org^$script"} {
			r := mustNetRule(text, 1)
			got := rules.NewMatchingResult([]*rules.NetworkRule{r}, nil).GetCosmeticOption()
			c.Run.Add("evaluations", 1)
			if got != rules.CosmeticOptionAll {
				c.Run.Violate(ev.Violation{Pred: "blocking-rule-keeps-all", Sig: map[string]any{"rule": text},
					What: fmt.Sprintf("blocking basic rule %q gives option %03b", text, got), Replay: map[string]any{"mods": []string{}}})
			}
		}
		// no basic rule, document-level exceptions matching the referrer only: everything stays enabled
		for mask := 1; mask < 1<<n; mask++ {
			var mods []string
			for i := 0; i < n; i++ {
				if mask&(1<<i) != 0 {
					mods = append(mods, c16Mods[i])
				}
			}
			sr, perr := rules.NewNetworkRule(c16RuleText(mods), 1)
			if perr != nil {
				continue
			}
			c.Run.Add("evaluations", 1)
			if got := rules.NewMatchingResult(nil, []*rules.NetworkRule{sr}).GetCosmeticOption(); got != rules.CosmeticOptionAll {
				c.Run.Violate(ev.Violation{Pred: "nil-rule-keeps-all", Sig: map[string]any{"referrer_rule_mods": mods},
					What: fmt.Sprintf("no basic rule, referrer-level rule %q: option %03b, expected everything enabled", c16RuleText(mods), got), Replay: map[string]any{"mods": mods}})
				break
			}
		}
		if got := rules.NewMatchingResult(nil, nil).GetCosmeticOption(); got != rules.CosmeticOptionAll {
			c.Run.Violate(ev.Violation{Pred: "nil-rule-keeps-all", Sig: map[string]any{}, What: fmt.Sprintf("no basic rule gives option %03b", got), Replay: map[string]any{"mods": []string{}}})
		}

		// flag decoding in Engine.GetCosmeticResult: each flag independently
		e := urlfilter.NewEngine(stringStorage("##.g\nexample.org##.s\n~other.org##.g\n~example.org##.gx\ngoogle.*##.w\n"))
		// ascending, then descending on the same engine: a result must not depend on
		// what was asked before
		var optOrder []int
		for o := 0; o < 64; o++ {
			optOrder = append(optOrder, o)
		}
		for o := 63; o >= 0; o-- {
			optOrder = append(optOrder, o)
		}
		for _, o := range optOrder {
			opt := rules.CosmeticOption(o)
			res := e.GetCosmeticResult("example.org", opt)
			c.Run.Add("evaluations", 1)
			css := opt&rules.CosmeticOptionCSS != 0
			gen := opt&rules.CosmeticOptionGenericCSS != 0
			wantG, wantS := css && gen, css
			gs, ss := sortedSet(res.ElementHiding.Generic), sortedSet(res.ElementHiding.Specific)
			gotG := len(gs) == 1 && gs[0] == ".g"
			gotS := len(ss) == 1 && ss[0] == ".s"
			// a rule for a wildcard-TLD domain is domain-specific: switching generic CSS off leaves it
			resW := e.GetCosmeticResult("www.google.com", opt)
			c.Run.Add("evaluations", 1)
			ws := sortedSet(resW.ElementHiding.Specific)
			if (len(ws) == 1 && ws[0] == ".w") != css || (!css && len(ws) != 0) {
				c.Run.Violate(ev.Violation{Pred: "flag-decoding", Sig: map[string]any{"option": o, "host": "www.google.com"},
					What:   fmt.Sprintf("GetCosmeticResult(www.google.com, option=%06b) over [google.*##.w ...]: specific=%v generic=%v, expected .w among the specific selectors iff CSS is enabled", o, resW.ElementHiding.Specific, resW.ElementHiding.Generic),
					Replay: map[string]any{"mods": []string{}}})
			}
			if gotG != wantG || gotS != wantS || (!wantG && len(gs) != 0) || (!wantS && len(ss) != 0) {
				c.Run.Violate(ev.Violation{Pred: "flag-decoding", Sig: map[string]any{"option": o},
					What:   fmt.Sprintf("GetCosmeticResult(option=%06b): generic=%v specific=%v, expected generic present=%v specific present=%v", o, res.ElementHiding.Generic, res.ElementHiding.Specific, wantG, wantS),
					Replay: map[string]any{"mods": []string{}}})
			}
		}

		c.Run.Set("distinct_nontrivial", int64(len(distinct)))
		c.Run.Set("rule", "every subset of the 9 exception modifiers (distinct = subsets), each in ascending and descending option order through NewMatchingResult and Engine.MatchRequest, plus all permutations of subsets up to size "+fmt.Sprint(permLimit)+"; non-trivial = every subset (the empty one checks 'all enabled')")
		c.Run.Set("exhaustive", exhaustive)
		c.Run.Assumption("options outside {CSS, GenericCSS, JS} are not produced by GetCosmeticOption")
	})
}
