package props

import (
	"fmt"
	"io"
	"net"
	"net/http"
	"net/http/httptest"
	"net/url"
	"os"
	"path/filepath"
	"regexp"
	"strings"
	"time"

	"github.com/AdguardTeam/golibs/log"
	"github.com/AdguardTeam/gomitmproxy"
	"github.com/AdguardTeam/urlfilter/proxy"
	"github.com/AdguardTeam/urlfilter/rules"

	"verif/ev"
)

// c16ProxyLayer drives the real filtering proxy (proxy.Server: onRequest,
// onResponse, filterHTML) on the loopback interface in front of a local origin
// that serves one HTML page, for every subset of the exception modifiers in
// mods on an exception rule for the origin and every client style.  The option
// the proxy acts on (no injection at all, or the option= value it renders into
// the injected tag) must be the one the modifiers define, whatever the proxy
// could or could not tell about the request type before the response came.
//
// It returns a non-empty reason if the layer could not run here (no loopback
// interface); that is recorded, not reported.
func c16ProxyLayer(c *Ctx, mods []string) (evals int64, skipped string) {
	const page = "<html><head><title>t</title></head><body><div class=\"banner\">ad</div></body></html>"
	log.SetOutput(io.Discard)

	var origin *httptest.Server
	if p := protect(func() {
		origin = httptest.NewServer(http.HandlerFunc(func(w http.ResponseWriter, _ *http.Request) {
			w.Header().Set("Content-Type", "text/html; charset=utf-8")
			_, _ = io.WriteString(w, page)
		}))
	}); p != nil {
		return 0, fmt.Sprintf("cannot listen on the loopback interface: %v", p)
	}
	defer origin.Close()
	_, port, err := net.SplitHostPort(origin.Listener.Addr().String())
	if err != nil {
		return 0, err.Error()
	}
	reOption := regexp.MustCompile(`[?&]option=(\d+)`)
	type style struct {
		name string
		hdr  map[string]string
		path string
	}
	styles := []style{
		{"plain client (type known from the response only)", nil, "/"},
		{"Accept: text/html", map[string]string{"Accept": "text/html,application/xhtml+xml;q=0.9,*/*;q=0.8"}, "/"},
		{"Sec-Fetch-Dest: document", map[string]string{"Sec-Fetch-Dest": "document"}, "/"},
		{"Accept: */* on a path that looks like a script", map[string]string{"Accept": "*/*"}, "/app.js"},
	}
	dir := os.Getenv("VERIF_WORK")
	n := len(mods)
	for mask := 0; mask < 1<<n; mask++ {
		var ms []string
		for i := 0; i < n; i++ {
			if mask&(1<<i) != 0 {
				ms = append(ms, mods[i])
			}
		}
		list := "##.banner\n"
		if len(ms) > 0 {
			list += "@@||localhost^$" + strings.Join(ms, ",") + "\n"
		}
		if len(ms) > 0 {
			if _, perr := rules.NewNetworkRule("@@||localhost^$"+strings.Join(ms, ","), 1); perr != nil {
				continue
			}
		}
		want := c16Expected(ms)
		listPath := filepath.Join(dir, fmt.Sprintf("c16-proxy-%d-%d.txt", os.Getpid(), mask))
		if err := os.WriteFile(listPath, []byte(list), 0o600); err != nil {
			panic(HarnessError(err.Error()))
		}
		srv, err := proxy.NewServer(proxy.Config{
			ProxyConfig:   gomitmproxy.Config{ListenAddr: &net.TCPAddr{IP: net.IPv4(127, 0, 0, 1), Port: 0}},
			FiltersPaths:  map[int]string{1: listPath},
			InjectionHost: "injections.verif.test",
		})
		if err != nil {
			_ = os.Remove(listPath)
			return evals, "proxy.NewServer: " + err.Error()
		}
		if err = srv.Start(); err != nil {
			_ = os.Remove(listPath)
			return evals, "proxy.Server.Start: " + err.Error()
		}
		proxyURL, _ := url.Parse("http://" + proxy.VerifProxyAddr(srv).String())
		client := &http.Client{Timeout: 20 * time.Second, Transport: &http.Transport{Proxy: http.ProxyURL(proxyURL), DisableKeepAlives: true}}
		for _, st := range styles {
			req, _ := http.NewRequest(http.MethodGet, "http://localhost:"+port+st.path, nil)
			for k, v := range st.hdr {
				req.Header.Set(k, v)
			}
			resp, err := client.Do(req)
			if err != nil {
				srv.Close()
				_ = os.Remove(listPath)
				return evals, "request through the proxy failed: " + err.Error()
			}
			body, err := io.ReadAll(resp.Body)
			_ = resp.Body.Close()
			if err != nil {
				srv.Close()
				_ = os.Remove(listPath)
				return evals, "reading the response through the proxy failed: " + err.Error()
			}
			evals++
			got := "page untouched"
			if strings.Contains(string(body), "injections.verif.test/content-script.js") {
				got = "injected, no option"
				if m := reOption.FindStringSubmatch(string(body)); m != nil {
					got = "injected option=" + m[1]
				}
			} else if string(body) != page {
				got = "page changed without an injection: " + clip(string(body))
			}
			exp := "page untouched"
			if want != rules.CosmeticOptionNone {
				exp = fmt.Sprintf("injected option=%d", want)
			}
			if got != exp {
				c.Run.Violate(ev.Violation{Pred: "proxy-acts-on-the-option-the-modifiers-define", Sig: map[string]any{"mods": ms, "client": st.name},
					What:   fmt.Sprintf("proxy over [##.banner, @@||localhost^$%s], %s: %s, expected %s", strings.Join(ms, ","), st.name, got, exp),
					Replay: map[string]any{"mods": ms, "proxy": true}})
			}
		}
		srv.Close()
		_ = os.Remove(listPath)
	}
	return evals, ""
}

// c16ProxyHistory: the option the proxy acts on is a function of the page, not
// of what the same proxy served before.  One list with path-restricted
// exceptions gives five pages of one host different verdicts; every ordered
// pair of pages is fetched through one fresh proxy instance.
func c16ProxyHistory(c *Ctx) (evals int64, skipped string) {
	const page = "<html><head><title>t</title></head><body><div class=\"banner\">ad</div></body></html>"
	log.SetOutput(io.Discard)
	var origin *httptest.Server
	if p := protect(func() {
		origin = httptest.NewServer(http.HandlerFunc(func(w http.ResponseWriter, _ *http.Request) {
			w.Header().Set("Content-Type", "text/html; charset=utf-8")
			_, _ = io.WriteString(w, page)
		}))
	}); p != nil {
		return 0, fmt.Sprintf("cannot listen on the loopback interface: %v", p)
	}
	defer origin.Close()
	_, port, _ := net.SplitHostPort(origin.Listener.Addr().String())
	type pg struct {
		path string
		mods []string
	}
	pages := []pg{{"/plain/x", nil}, {"/e/x", []string{"elemhide"}}, {"/g/x", []string{"generichide"}}, {"/j/x", []string{"jsinject"}}, {"/d/x", []string{"document"}}, {"/ej/x", []string{"elemhide", "jsinject"}}}
	list := "##.banner\n"
	for _, p := range pages {
		if p.mods != nil {
			list += "@@" + p.path + "|$" + strings.Join(p.mods, ",") + "\n" // the URL ends in this path
		}
	}
	listPath := filepath.Join(os.Getenv("VERIF_WORK"), fmt.Sprintf("c16-proxy-hist-%d.txt", os.Getpid()))
	if err := os.WriteFile(listPath, []byte(list), 0o600); err != nil {
		panic(HarnessError(err.Error()))
	}
	defer os.Remove(listPath)
	reOption := regexp.MustCompile(`[?&]option=(\d+)`)
	fetch := func(client *http.Client, path string) (string, error) {
		req, _ := http.NewRequest(http.MethodGet, "http://localhost:"+port+path, nil)
		req.Header.Set("Accept", "text/html,*/*;q=0.8")
		resp, err := client.Do(req)
		if err != nil {
			return "", err
		}
		body, err := io.ReadAll(resp.Body)
		_ = resp.Body.Close()
		if err != nil {
			return "", err
		}
		if strings.Contains(string(body), "injections.verif.test/content-script.js") {
			if m := reOption.FindStringSubmatch(string(body)); m != nil {
				return "injected option=" + m[1], nil
			}
			return "injected, no option", nil
		}
		if string(body) != page {
			return "page changed without an injection", nil
		}
		return "page untouched", nil
	}
	expect := func(p pg) string {
		if o := c16Expected(p.mods); o != rules.CosmeticOptionNone {
			return fmt.Sprintf("injected option=%d", o)
		}
		return "page untouched"
	}
	for _, first := range pages {
		for _, second := range pages {
			srv, err := proxy.NewServer(proxy.Config{
				ProxyConfig:   gomitmproxy.Config{ListenAddr: &net.TCPAddr{IP: net.IPv4(127, 0, 0, 1), Port: 0}},
				FiltersPaths:  map[int]string{1: listPath},
				InjectionHost: "injections.verif.test",
			})
			if err != nil {
				return evals, "proxy.NewServer: " + err.Error()
			}
			if err = srv.Start(); err != nil {
				return evals, "proxy.Server.Start: " + err.Error()
			}
			proxyURL, _ := url.Parse("http://" + proxy.VerifProxyAddr(srv).String())
			client := &http.Client{Timeout: 20 * time.Second, Transport: &http.Transport{Proxy: http.ProxyURL(proxyURL), DisableKeepAlives: true}}
			for k, p := range []pg{first, second, first} {
				got, err := fetch(client, p.path)
				if err != nil {
					srv.Close()
					return evals, "request through the proxy failed: " + err.Error()
				}
				evals++
				if want := expect(p); got != want {
					c.Run.Violate(ev.Violation{Pred: "proxy-option-is-a-function-of-the-page", Sig: map[string]any{"first": first.path, "second": second.path, "fetch": k},
						What:   fmt.Sprintf("one proxy instance, pages %s, %s, %s of one host in this order: fetch #%d (%s, exception modifiers %v): %s, expected %s", first.path, second.path, first.path, k+1, p.path, p.mods, got, want),
						Replay: map[string]any{"mods": []string{}, "proxy_history": true}})
					break
				}
			}
			srv.Close()
		}
	}
	return evals, ""
}
