package props

import (
	"fmt"
	"io"
	"net"
	"net/http"
	"net/http/httptest"
	"net/url"
	"os"
	"path/filepath"
	"regexp"
	"strings"
	"time"

	"github.com/AdguardTeam/golibs/log"
	"github.com/AdguardTeam/gomitmproxy"
	"github.com/AdguardTeam/urlfilter/proxy"
	"github.com/AdguardTeam/urlfilter/rules"

	"verif/ev"
)

// c16ProxyLayer drives the real filtering proxy (proxy.Server: onRequest,
// onResponse, filterHTML) on the loopback interface in front of a local origin
// that serves one HTML page, for every subset of the exception modifiers in
// mods on an exception rule for the origin and every client style.  The option
// the proxy acts on (no injection at all, or the option= value it renders into
// the injected tag) must be the one the modifiers define, whatever the proxy
// could or could not tell about the request type before the response came.
//
// It returns a non-empty reason if the layer could not run here (no loopback
// interface); that is recorded, not reported.
func c16ProxyLayer(c *Ctx, mods []string) (evals int64, skipped string) {
	const page = "<html><head><title>t</title></head><body><div class=\"banner\">ad</div></body></html>"
	log.SetOutput(io.Discard)

	var origin *httptest.Server
	if p := protect(func() {
		origin = httptest.NewServer(http.HandlerFunc(func(w http.ResponseWriter, _ *http.Request) {
			w.Header().Set("Content-Type", "text/html; charset=utf-8")
			_, _ = io.WriteString(w, page)
		}))
	}); p != nil {
		return 0, fmt.Sprintf("cannot listen on the loopback interface: %v", p)
	}
	defer origin.Close()
	_, port, err := net.SplitHostPort(origin.Listener.Addr().String())
	if err != nil {
		return 0, err.Error()
	}
	reOption := regexp.MustCompile(`[?&]option=(\d+)`)
	type style struct {
		name string
		hdr  map[string]string
		path string
	}
	styles := []style{
		{"plain client (type known from the response only)", nil, "/"},
		{"Accept: text/html", map[string]string{"Accept": "text/html,application/xhtml+xml;q=0.9,*/*;q=0.8"}, "/"},
		{"Sec-Fetch-Dest: document", map[string]string{"Sec-Fetch-Dest": "document"}, "/"},
		{"Accept: */* on a path that looks like a script", map[string]string{"Accept": "*/*"}, "/app.js"},
	}
	dir := os.Getenv("VERIF_WORK")
	n := len(mods)
	for mask := 0; mask < 1<<n; mask++ {
		var ms []string
		for i := 0; i < n; i++ {
			if mask&(1<<i) != 0 {
				ms = append(ms, mods[i])
			}
		}
		list := "##.banner\n"
		if len(ms) > 0 {
			list += "@@||localhost^$" + strings.Join(ms, ",") + "\n"
		}
		if len(ms) > 0 {
			if _, perr := rules.NewNetworkRule("@@||localhost^$"+strings.Join(ms, ","), 1); perr != nil {
				continue
			}
		}
		want := c16Expected(ms)
		listPath := filepath.Join(dir, fmt.Sprintf("c16-proxy-%d-%d.txt", os.Getpid(), mask))
		if err := os.WriteFile(listPath, []byte(list), 0o600); err != nil {
			panic(HarnessError(err.Error()))
		}
		srv, err := proxy.NewServer(proxy.Config{
			ProxyConfig:   gomitmproxy.Config{ListenAddr: &net.TCPAddr{IP: net.IPv4(127, 0, 0, 1), Port: 0}},
			FiltersPaths:  map[int]string{1: listPath},
			InjectionHost: "injections.verif.test",
		})
		if err != nil {
			_ = os.Remove(listPath)
			return evals, "proxy.NewServer: " + err.Error()
		}
		if err = srv.Start(); err != nil {
			_ = os.Remove(listPath)
			return evals, "proxy.Server.Start: " + err.Error()
		}
		proxyURL, _ := url.Parse("http://" + proxy.VerifProxyAddr(srv).String())
		client := &http.Client{Timeout: 20 * time.Second, Transport: &http.Transport{Proxy: http.ProxyURL(proxyURL), DisableKeepAlives: true}}
		for _, st := range styles {
			req, _ := http.NewRequest(http.MethodGet, "http://localhost:"+port+st.path, nil)
			for k, v := range st.hdr {
				req.Header.Set(k, v)
			}
			resp, err := client.Do(req)
			if err != nil {
				srv.Close()
				_ = os.Remove(listPath)
				return evals, "request through the proxy failed: " + err.Error()
			}
			body, err := io.ReadAll(resp.Body)
			_ = resp.Body.Close()
			if err != nil {
				srv.Close()
				_ = os.Remove(listPath)
				return evals, "reading the response through the proxy failed: " + err.Error()
			}
			evals++
			got := "page untouched"
			if strings.Contains(string(body), "injections.verif.test/content-script.js") {
				got = "injected, no option"
				if m := reOption.FindStringSubmatch(string(body)); m != nil {
					got = "injected option=" + m[1]
				}
			} else if string(body) != page {
				got = "page changed without an injection: " + clip(string(body))
			}
			exp := "page untouched"
			if want != rules.CosmeticOptionNone {
				exp = fmt.Sprintf("injected option=%d", want)
			}
			if got != exp {
				c.Run.Violate(ev.Violation{Pred: "proxy-acts-on-the-option-the-modifiers-define", Sig: map[string]any{"mods": ms, "client": st.name},
					What:   fmt.Sprintf("proxy over [##.banner, @@||localhost^$%s], %s: %s, expected %s", strings.Join(ms, ","), st.name, got, exp),
					Replay: map[string]any{"mods": ms, "proxy": true}})
			}
		}
		srv.Close()
		_ = os.Remove(listPath)
	}
	return evals, ""
}

// c16ProxyHistory: the option the proxy acts on is a function of the page, not
// of what the same proxy served before.  One list with path-restricted
// exceptions gives five pages of one host different verdicts; every ordered
// pair of pages is fetched through one fresh proxy instance.
func c16ProxyHistory(c *Ctx) (evals int64, skipped string) {
	const page = "<html><head><title>t</title></head><body><div class=\"banner\">ad</div></body></html>"
	log.SetOutput(io.Discard)
	var origin *httptest.Server
	if p := protect(func() {
		origin = httptest.NewServer(http.HandlerFunc(func(w http.ResponseWriter, _ *http.Request) {
			w.Header().Set("Content-Type", "text/html; charset=utf-8")
			_, _ = io.WriteString(w, page)
		}))
	}); p != nil {
		return 0, fmt.Sprintf("cannot listen on the loopback interface: %v", p)
	}
	defer origin.Close()
	_, port, _ := net.SplitHostPort(origin.Listener.Addr().String())
	type pg struct {
		path string
		mods []string
	}
	pages := []pg{{"/plain/x", nil}, {"/e/x", []string{"elemhide"}}, {"/g/x", []string{"generichide"}}, {"/j/x", []string{"jsinject"}}, {"/d/x", []string{"document"}}, {"/ej/x", []string{"elemhide", "jsinject"}}}
	list := "##.banner\n"
	for _, p := range pages {
		if p.mods != nil {
			list += "@@" + p.path + "|$" + strings.Join(p.mods, ",") + "\n" // the URL ends in this path
		}
	}
	listPath := filepath.Join(os.Getenv("VERIF_WORK"), fmt.Sprintf("c16-proxy-hist-%d.txt", os.Getpid()))
	if err := os.WriteFile(listPath, []byte(list), 0o600); err != nil {
		panic(HarnessError(err.Error()))
	}
	defer os.Remove(listPath)
	reOption := regexp.MustCompile(`[?&]option=(\d+)`)
	fetch := func(client *http.Client, path string) (string, error) {
		req, _ := http.NewRequest(http.MethodGet, "http://localhost:"+port+path, nil)
		req.Header.Set("Accept", "text/html,*/*;q=0.8")
		resp, err := client.Do(req)
		if err != nil {
			return "", err
		}
		body, err := io.ReadAll(resp.Body)
		_ = resp.Body.Close()
		if err != nil {
			return "", err
		}
		if strings.Contains(string(body), "injections.verif.test/content-script.js") {
			if m := reOption.FindStringSubmatch(string(body)); m != nil {
				return "injected option=" + m[1], nil
			}
			return "injected, no option", nil
		}
		if string(body) != page {
			return "page changed without an injection", nil
		}
		return "page untouched", nil
	}
	expect := func(p pg) string {
		if o := c16Expected(p.mods); o != rules.CosmeticOptionNone {
			return fmt.Sprintf("injected option=%d", o)
		}
		return "page untouched"
	}
	for _, first := range pages {
		for _, second := range pages {
			srv, err := proxy.NewServer(proxy.Config{
				ProxyConfig:   gomitmproxy.Config{ListenAddr: &net.TCPAddr{IP: net.IPv4(127, 0, 0, 1), Port: 0}},
				FiltersPaths:  map[int]string{1: listPath},
				InjectionHost: "injections.verif.test",
			})
			if err != nil {
				return evals, "proxy.NewServer: " + err.Error()
			}
			if err = srv.Start(); err != nil {
				return evals, "proxy.Server.Start: " + err.Error()
			}
			proxyURL, _ := url.Parse("http://" + proxy.VerifProxyAddr(srv).String())
			client := &http.Client{Timeout: 20 * time.Second, Transport: &http.Transport{Proxy: http.ProxyURL(proxyURL), DisableKeepAlives: true}}
			for k, p := range []pg{first, second, first} {
				got, err := fetch(client, p.path)
				if err != nil {
					srv.Close()
					return evals, "request through the proxy failed: " + err.Error()
				}
				evals++
				if want := expect(p); got != want {
					c.Run.Violate(ev.Violation{Pred: "proxy-option-is-a-function-of-the-page", Sig: map[string]any{"first": first.path, "second": second.path, "fetch": k},
						What:   fmt.Sprintf("one proxy instance, pages %s, %s, %s of one host in this order: fetch #%d (%s, exception modifiers %v): %s, expected %s", first.path, second.path, first.path, k+1, p.path, p.mods, got, want),
						Replay: map[string]any{"mods": []string{}, "proxy_history": true}})
					break
				}
			}
			srv.Close()
		}
	}
	return evals, ""
}

// c16HandlerHistory drives the real content-script handler of the proxy
// (Server.buildContentScript, the consumer of the option the injected tag
// carries) without a network: every ordered k-tuple of (hostname, option)
// pages, every interleaving of the events "the handler builds the response of
// page i" and "the response of page i is written out" (build before write-out,
// as gomitmproxy sends a response after the handler returned, while other
// connections are being handled).  Every body must be the one the same page
// gets when it is served alone, and its Content-Length must be its length.
func c16HandlerHistory(c *Ctx) (evals int64) {
	log.SetOutput(io.Discard)
	const list = "##.generic-banner\n##.generic-banner-2\nexample.org##.specific-banner\nother.org##.other-specific-banner\n" +
		"example.org#%#window.__a = 1;\n#%#window.__g = 1;\nother.org#$#.x { color: red }\n@@||example.org^$elemhide\n"
	dir := os.TempDir()
	listPath := filepath.Join(dir, fmt.Sprintf("c16-handler-%d.txt", os.Getpid()))
	if err := os.WriteFile(listPath, []byte(list), 0o600); err != nil {
		panic(HarnessError(err.Error()))
	}
	defer os.Remove(listPath)
	type page struct {
		host string
		opt  uint64
	}
	var pages []page
	opts := []uint64{7, 4, 6, 1, 3}
	if c.Thorough() {
		opts = []uint64{1, 2, 3, 4, 5, 6, 7}
	}
	for _, h := range []string{"example.org", "other.org"} {
		for _, o := range opts {
			pages = append(pages, page{h, o})
		}
	}
	read := func(res *http.Response) string {
		if res == nil {
			return "<nil response>"
		}
		b, err := io.ReadAll(res.Body)
		if err != nil {
			return "<read error: " + err.Error() + ">"
		}
		if res.ContentLength != int64(len(b)) {
			return fmt.Sprintf("<Content-Length %d for a body of %d bytes>", res.ContentLength, len(b))
		}
		return fmt.Sprintf("%d %s|", res.StatusCode, res.Header.Get("Content-Encoding")) + string(b)
	}
	for _, compress := range []bool{false, true} {
		srv, err := proxy.NewServer(proxy.Config{
			ProxyConfig:           gomitmproxy.Config{ListenAddr: &net.TCPAddr{IP: net.IPv4(127, 0, 0, 1), Port: 0}},
			FiltersPaths:          map[int]string{1: listPath},
			InjectionHost:         "injections.verif.test",
			CompressContentScript: compress,
		})
		if err != nil {
			panic(HarnessError("proxy.NewServer: " + err.Error()))
		}
		build := func(p page) *http.Response {
			res, err := proxy.VerifContentScript(srv, p.host, p.opt)
			if err != nil {
				panic(HarnessError(err.Error()))
			}
			return res
		}
		alone := map[page]string{}
		for _, p := range pages {
			alone[p] = read(build(p))
			evals++
			if again := read(build(p)); again != alone[p] {
				c.Run.Violate(ev.Violation{Pred: "content-script-is-the-one-of-its-page", Sig: map[string]any{"host": p.host, "option": p.opt, "compress": compress, "history": "twice"},
					What:   fmt.Sprintf("content script of %s option=%d (compress=%v) differs between two sequential requests", p.host, p.opt, compress),
					Replay: map[string]any{"mods": []string{}, "handler_history": true}})
			}
		}
		// host names that carry a parameter of their own (the tag writes the host name into the URL as it is): the
		// page's option is the one the proxy computed -- the script is refused or it is the one of that option
		for _, p := range pages {
			for _, smuggled := range []string{"&option=7", "&option=3", "&option=5", "&option=6&x=", "&option=7&option=7", "&hostname=other.org", "&ts=1"} {
				res := build(page{p.host + smuggled, p.opt})
				evals++
				if got := read(res); strings.HasPrefix(got, "200 ") && got != alone[p] {
					c.Run.Violate(ev.Violation{Pred: "content-script-is-the-one-of-its-page", Sig: map[string]any{"host": p.host, "option": p.opt, "compress": compress, "smuggled": smuggled},
						What: fmt.Sprintf("page host name %q with the option %d the proxy computed (compress=%v): the handler serves a script (%d bytes) that is not the one of %s option=%d (%d bytes; first difference at byte %d)",
							p.host+smuggled, p.opt, compress, len(got), p.host, p.opt, len(alone[p]), firstDiff(got, alone[p])),
						Replay: map[string]any{"mods": []string{}, "handler_history": true}})
				}
			}
		}
		for _, k := range []int{2, 3} {
			if k == 3 && !c.Thorough() {
				// quick: triples over a reduced page set
			}
			ps := pages
			if k == 3 {
				ps = nil
				for _, p := range pages {
					if p.opt == 7 || p.opt == 4 || (c.Thorough() && (p.opt == 6 || p.opt == 1)) {
						ps = append(ps, p)
					}
				}
			}
			// all interleavings of k build events and k write-out events, build i before write-out i
			var orders [][]int // event e<k: build e; e>=k: write-out e-k
			var gen func(cur []int, built, written int)
			gen = func(cur []int, built, written int) {
				if len(cur) == 2*k {
					orders = append(orders, append([]int{}, cur...))
					return
				}
				for e := 0; e < 2*k; e++ {
					bit := 1 << e
					if e < k {
						// builds in index order (tuples are ordered already)
						if built&bit != 0 || (e > 0 && built&(1<<(e-1)) == 0) {
							continue
						}
						gen(append(cur, e), built|bit, written)
					} else {
						if written&(1<<(e-k)) != 0 || built&(1<<(e-k)) == 0 {
							continue
						}
						gen(append(cur, e), built, written|1<<(e-k))
					}
				}
			}
			gen(nil, 0, 0)
			idx := make([]int, k)
			for {
				tuple := make([]page, k)
				for i := range idx {
					tuple[i] = ps[idx[i]]
				}
				for _, order := range orders {
					res := make([]*http.Response, k)
					for _, e := range order {
						if e < k {
							res[e] = build(tuple[e])
							continue
						}
						i := e - k
						evals++
						if got := read(res[i]); got != alone[tuple[i]] {
							c.Run.Violate(ev.Violation{Pred: "content-script-is-the-one-of-its-page", Sig: map[string]any{"host": tuple[i].host, "option": tuple[i].opt, "compress": compress, "pages": fmt.Sprint(tuple), "order": fmt.Sprint(order)},
								What: fmt.Sprintf("pages %v, events %v (e<%d: handler builds response e; e>=%d: response e-%d is written out), compress=%v: the content script written out for %s option=%d is not the one this page gets when served alone (%d bytes, alone %d bytes; first difference at byte %d)",
									tuple, order, k, k, k, compress, tuple[i].host, tuple[i].opt, len(got), len(alone[tuple[i]]), firstDiff(got, alone[tuple[i]])),
								Replay: map[string]any{"mods": []string{}, "handler_history": true}})
						}
					}
				}
				j := k - 1
				for ; j >= 0; j-- {
					idx[j]++
					if idx[j] < len(ps) {
						break
					}
					idx[j] = 0
				}
				if j < 0 {
					break
				}
			}
			c.Run.Set(fmt.Sprintf("handler_history_k%d_compress_%v", k, compress), fmt.Sprintf("%d pages^%d x %d interleavings", len(ps), k, len(orders)))
		}
	}
	return evals
}

func firstDiff(a, b string) int {
	n := len(a)
	if len(b) < n {
		n = len(b)
	}
	for i := 0; i < n; i++ {
		if a[i] != b[i] {
			return i
		}
	}
	return n
}
