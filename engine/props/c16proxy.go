package props

import (
	"fmt"
	"io"
	"net"
	"net/http"
	"net/http/httptest"
	"net/url"
	"os"
	"path/filepath"
	"regexp"
	"strings"
	"time"

	"github.com/AdguardTeam/golibs/log"
	"github.com/AdguardTeam/gomitmproxy"
	"github.com/AdguardTeam/urlfilter/proxy"
	"github.com/AdguardTeam/urlfilter/rules"

	"verif/ev"
)

// c16ProxyLayer drives the real filtering proxy (proxy.Server: onRequest,
// onResponse, filterHTML) on the loopback interface in front of a local origin
// that serves one HTML page, for every subset of the exception modifiers in
// mods on an exception rule for the origin and every client style.  The option
// the proxy acts on (no injection at all, or the option= value it renders into
// the injected tag) must be the one the modifiers define, whatever the proxy
// could or could not tell about the request type before the response came.
//
// It returns a non-empty reason if the layer could not run here (no loopback
// interface); that is recorded, not reported.
func c16ProxyLayer(c *Ctx, mods []string) (evals int64, skipped string) {
	const page = "<html><head><title>t</title></head><body><div class=\"banner\">ad</div></body></html>"
	log.SetOutput(io.Discard)

	var origin *httptest.Server
	if p := protect(func() {
		origin = httptest.NewServer(http.HandlerFunc(func(w http.ResponseWriter, _ *http.Request) {
			w.Header().Set("Content-Type", "text/html; charset=utf-8")
			_, _ = io.WriteString(w, page)
		}))
	}); p != nil {
		return 0, fmt.Sprintf("cannot listen on the loopback interface: %v", p)
	}
	defer origin.Close()
	_, port, err := net.SplitHostPort(origin.Listener.Addr().String())
	if err != nil {
		return 0, err.Error()
	}
	reOption := regexp.MustCompile(`[?&]option=(\d+)`)
	type style struct {
		name string
		hdr  map[string]string
		path string
	}
	styles := []style{
		{"plain client (type known from the response only)", nil, "/"},
		{"Accept: text/html", map[string]string{"Accept": "text/html,application/xhtml+xml;q=0.9,*/*;q=0.8"}, "/"},
		{"Sec-Fetch-Dest: document", map[string]string{"Sec-Fetch-Dest": "document"}, "/"},
		{"Accept: */* on a path that looks like a script", map[string]string{"Accept": "*/*"}, "/app.js"},
	}
	dir := os.Getenv("VERIF_WORK")
	n := len(mods)
	for mask := 0; mask < 1<<n; mask++ {
		var ms []string
		for i := 0; i < n; i++ {
			if mask&(1<<i) != 0 {
				ms = append(ms, mods[i])
			}
		}
		list := "##.banner\n"
		if len(ms) > 0 {
			list += "@@||localhost^$" + strings.Join(ms, ",") + "\n"
		}
		if len(ms) > 0 {
			if _, perr := rules.NewNetworkRule("@@||localhost^$"+strings.Join(ms, ","), 1); perr != nil {
				continue
			}
		}
		want := c16Expected(ms)
		listPath := filepath.Join(dir, fmt.Sprintf("c16-proxy-%d-%d.txt", os.Getpid(), mask))
		if err := os.WriteFile(listPath, []byte(list), 0o600); err != nil {
			panic(HarnessError(err.Error()))
		}
		srv, err := proxy.NewServer(proxy.Config{
			ProxyConfig:   gomitmproxy.Config{ListenAddr: &net.TCPAddr{IP: net.IPv4(127, 0, 0, 1), Port: 0}},
			FiltersPaths:  map[int]string{1: listPath},
			InjectionHost: "injections.verif.test",
		})
		if err != nil {
			_ = os.Remove(listPath)
			return evals, "proxy.NewServer: " + err.Error()
		}
		if err = srv.Start(); err != nil {
			_ = os.Remove(listPath)
			return evals, "proxy.Server.Start: " + err.Error()
		}
		proxyURL, _ := url.Parse("http://" + proxy.VerifProxyAddr(srv).String())
		client := &http.Client{Timeout: 20 * time.Second, Transport: &http.Transport{Proxy: http.ProxyURL(proxyURL), DisableKeepAlives: true}}
		for _, st := range styles {
			req, _ := http.NewRequest(http.MethodGet, "http://localhost:"+port+st.path, nil)
			for k, v := range st.hdr {
				req.Header.Set(k, v)
			}
			resp, err := client.Do(req)
			if err != nil {
				srv.Close()
				_ = os.Remove(listPath)
				return evals, "request through the proxy failed: " + err.Error()
			}
			body, err := io.ReadAll(resp.Body)
			_ = resp.Body.Close()
			if err != nil {
				srv.Close()
				_ = os.Remove(listPath)
				return evals, "reading the response through the proxy failed: " + err.Error()
			}
			evals++
			got := "page untouched"
			if strings.Contains(string(body), "injections.verif.test/content-script.js") {
				got = "injected, no option"
				if m := reOption.FindStringSubmatch(string(body)); m != nil {
					got = "injected option=" + m[1]
				}
			} else if string(body) != page {
				got = "page changed without an injection: " + clip(string(body))
			}
			exp := "page untouched"
			if want != rules.CosmeticOptionNone {
				exp = fmt.Sprintf("injected option=%d", want)
			}
			if got != exp {
				c.Run.Violate(ev.Violation{Pred: "proxy-acts-on-the-option-the-modifiers-define", Sig: map[string]any{"mods": ms, "client": st.name},
					What:   fmt.Sprintf("proxy over [##.banner, @@||localhost^$%s], %s: %s, expected %s", strings.Join(ms, ","), st.name, got, exp),
					Replay: map[string]any{"mods": ms, "proxy": true}})
			}
		}
		srv.Close()
		_ = os.Remove(listPath)
	}
	return evals, ""
}
