package props

import (
	"fmt"
	"net/url"
	"strings"
	"sync"

	"github.com/AdguardTeam/urlfilter/filterutil"
	"github.com/AdguardTeam/urlfilter/rules"
	"golang.org/x/net/publicsuffix"

	"verif/enum"
	"verif/ev"
)

// C17 — request fields agree with net/url and the Public Suffix List.

var c17Labels = []string{"a", "www", "example", "com", "co", "uk", "ck", "kobe", "jp", "city", "github", "io", "blogspot", "local", "1", "2"}

var c17Tails = []string{"", "/", "/p", "/p?q=1", "?q=1", ":8080", ":8080/p", "/p#f", "?q#f", "/p?u=http://other.example/x", ":8080?q=1", "?email=bob@mail.example.net", "/p?u=a@b.example", ":8080?x=y@z.example/w", "/a:b@c.example/", "/РЕКЛАМА.png?q=ÉCOLE", "/\u212aelvin/\u0130", "/новости/НОВОСТИ/index.html", "/XYZ/xyz?Q=AZaz"}

var c17Sources = []string{
	"example.com", "www.example.com", "a.example.com", "a.b.example.com", "example.co.uk", "www.example.co.uk", "a.co.uk", "co.uk", "uk",
	"www.ck", "a.www.ck", "example.ck", "a.example.ck", "ck", "city.kobe.jp", "a.city.kobe.jp", "example.kobe.jp", "a.example.kobe.jp", "kobe.jp", "jp",
	"github.io", "a.github.io", "b.a.github.io", "io", "blogspot.com", "a.blogspot.com", "b.a.blogspot.com", "example.local", "local", "a.example.local",
	"1.2", "1.2.1.2", "2.1", "example", "com", "www", "a.io", "example.uk", "example.jp", "a.a",
	"m7.m6.m5.m4.m3.m2.m1.example.com", "n9.n8.n7.n6.n5.n4.n3.n2.n1.a.github.io",
	// pages under a public suffix that lies below a registrable name (the request goes to that name or to a sibling)
	"mybucket.s3.amazonaws.com", "s3.amazonaws.com", "amazonaws.com", "x.global.ssl.fastly.net", "shop.city.kawasaki.jp", "a.b.kawasaki.jp",
}

func refDomain(host string) string {
	if host == "" {
		return ""
	}
	d, err := publicsuffix.EffectiveTLDPlusOne(host)
	if err != nil {
		return host
	}
	return d
}

type c17Cnt struct {
	mu                sync.Mutex
	evals, nontrivial int64
}

func c17CheckURL(c *Ctx, u string, srcHosts []string, srcDomains []string, cnt *c17Cnt) {
	pu, err := url.Parse(u)
	if err != nil {
		return // not a well-formed URL for the standard parser: outside the quantifier
	}
	wantHost := pu.Hostname()
	wantDomain := refDomain(wantHost)
	capped := u
	if len(capped) > 4096 {
		capped = capped[:4096]
	}
	var local int64
	bad := func(pred, what string, src string) {
		c.Run.Violate(ev.Violation{Pred: pred, Sig: map[string]any{"url": clip(u), "source": src}, What: what, Replay: map[string]any{"url": u, "source": src}})
	}
	for si := -1; si < len(srcHosts); si++ {
		src, srcDomain, srcHost := "", "", ""
		if si >= 0 {
			srcHost = srcHosts[si]
			src = "https://" + srcHost + "/page"
			srcDomain = srcDomains[si]
		}
		r := rules.NewRequest(u, src, rules.TypeScript)
		local++
		if r.Hostname != wantHost {
			bad("hostname-equals-net-url", fmt.Sprintf("NewRequest(%q).Hostname = %q, net/url gives %q", clip(u), r.Hostname, wantHost), src)
			break
		}
		if r.Domain != wantDomain {
			bad("domain-equals-etld-plus-one", fmt.Sprintf("NewRequest(%q).Domain = %q, Public Suffix List gives %q", clip(u), r.Domain, wantDomain), src)
			break
		}
		if r.SourceHostname != srcHost || r.SourceDomain != srcDomain {
			bad("source-fields", fmt.Sprintf("NewRequest(%q, %q): SourceHostname=%q SourceDomain=%q, expected %q %q", clip(u), src, r.SourceHostname, r.SourceDomain, srcHost, srcDomain), src)
			break
		}
		wantTP := srcDomain != "" && srcDomain != wantDomain
		if r.ThirdParty != wantTP {
			bad("third-party-iff-registrable-domains-differ", fmt.Sprintf("NewRequest(%q, %q).ThirdParty = %v, domains are %q and %q", clip(u), src, r.ThirdParty, wantDomain, srcDomain), src)
			break
		}
		if r.URL != capped || r.URLLowerCase != strings.ToLower(capped) {
			bad("lower-cased-capped-url", fmt.Sprintf("NewRequest(%q): URL/URLLowerCase are not the capped URL and its lower-casing", clip(u)), src)
			break
		}
		if si <= 1 {
			// the request type takes no part in any of the fields
			for _, t := range []rules.RequestType{rules.TypeDocument, rules.TypeSubdocument, rules.TypeImage, rules.TypeOther, rules.TypeXmlhttprequest} {
				rt := rules.NewRequest(u, src, t)
				local++
				if rt.Hostname != r.Hostname || rt.Domain != r.Domain || rt.SourceHostname != r.SourceHostname || rt.SourceDomain != r.SourceDomain || rt.ThirdParty != r.ThirdParty || rt.URLLowerCase != r.URLLowerCase || rt.RequestType != t {
					bad("fields-independent-of-request-type", fmt.Sprintf("NewRequest(%q, %q, type %d): Hostname=%q Domain=%q SourceHostname=%q SourceDomain=%q ThirdParty=%v RequestType=%d; as a script request: %q %q %q %q %v", clip(u), src, t, rt.Hostname, rt.Domain, rt.SourceHostname, rt.SourceDomain, rt.ThirdParty, rt.RequestType, r.Hostname, r.Domain, r.SourceHostname, r.SourceDomain, r.ThirdParty), src)
					break
				}
			}
			if si == -1 && c17InContract(u) {
				local++
				if h := filterutil.ExtractHostname(u); !strings.EqualFold(h, wantHost) {
					bad("hostname-equals-net-url", fmt.Sprintf("filterutil.ExtractHostname(%q) = %q, net/url gives %q", clip(u), h, wantHost), src)
				}
			}
		}
		if si >= 0 && wantHost != "" {
			// symmetry: swap the roles of url and source
			r2 := rules.NewRequest(src, u, rules.TypeScript)
			local++
			if r2.ThirdParty != r.ThirdParty {
				bad("third-party-symmetric", fmt.Sprintf("third-party(%q from %q)=%v but third-party(%q from %q)=%v", clip(u), src, r.ThirdParty, src, clip(u), r2.ThirdParty), src)
				break
			}
		}
	}
	cnt.mu.Lock()
	cnt.evals += local
	cnt.nontrivial++
	cnt.mu.Unlock()
}

// c17InContract reports whether u has the shape the property quantifies over:
// scheme://host[:port] followed by nothing, a /path or a ?query; host a domain
// name or IPv4 literal without empty labels; no userinfo; no fragment directly
// after the host.
func c17InContract(u string) bool {
	i := strings.Index(u, "://")
	if i <= 0 {
		return false
	}
	switch strings.ToLower(u[:i]) {
	case "http", "https", "ws", "wss":
	default:
		return false
	}
	rest := u[i+3:]
	end := strings.IndexAny(rest, "/?#")
	auth := rest
	if end >= 0 {
		if rest[end] == '#' {
			return false
		}
		auth = rest[:end]
	}
	host := auth
	if j := strings.LastIndexByte(auth, ':'); j >= 0 {
		host = auth[:j]
		port := auth[j+1:]
		if port == "" {
			return false
		}
		for _, ch := range port {
			if ch < '0' || ch > '9' {
				return false
			}
		}
	}
	if host == "" || strings.Contains(host, "..") || host[0] == '.' || host[len(host)-1] == '.' {
		return false
	}
	for _, ch := range host {
		if !(ch >= 'a' && ch <= 'z' || ch >= 'A' && ch <= 'Z' || ch >= '0' && ch <= '9' || ch == '.' || ch == '-' || ch == '_') {
			return false
		}
	}
	return true
}

func clip(s string) string {
	if len(s) > 120 {
		return s[:100] + fmt.Sprintf("…(%d bytes)", len(s))
	}
	return s
}

func init() {
	register("C17", "exploration", func(c *Ctx) {
		srcDomains := make([]string, len(c17Sources))
		for i, s := range c17Sources {
			srcDomains[i] = refDomain(s)
		}
		cnt := &c17Cnt{}
		if c.Replay != nil {
			u, _ := c.Replay["url"].(string)
			c17CheckURL(c, u, c17Sources, srcDomains, cnt)
			return
		}
		maxLabels := 3
		if c.Thorough() {
			maxLabels = 4
		}
		var hosts []string
		for l := 1; l <= maxLabels; l++ {
			enum.Sequences(len(c17Labels), l, func(s []int) bool {
				ls := make([]string, l)
				for i, k := range s {
					ls[i] = c17Labels[k]
				}
				hosts = append(hosts, strings.Join(ls, "."))
				return true
			})
		}
		hosts = append(hosts, "Example.COM", "WWW.Example.co.UK", "1.2.3.4", "127.0.0.1", "xn--e1afmkfd.xn--p1ai", "a-b.example.com", "a_b.example.com", "a.com.example.com", "x.co.uk.shop.co.uk", "a.b.a.b", "10.4.3.4",
			"l5.l4.l3.l2.l1.example.com", "l7.l6.l5.l4.l3.l2.l1.example.co.uk", "l9.l8.l7.l6.l5.l4.l3.l2.l1.city.kobe.jp", "a.b.c.d.e.f.g.h.i.github.io", "a.b.c.d.e.f.g.local", "x9.x8.x7.x6.x5.x4.x3.x2.x1.www.ck",
			"a.b.app.os.stg.fedoraproject.org", "img.shop.app.os.stg.fedoraproject.org", "shop.app.os.stg.fedoraproject.org")
		// suffix families of every section of the Public Suffix List (infrastructure, two- and three-level
		// country suffixes, wildcard and exception rules, private suffixes): the suffix itself, a name under it, a name below that
		for _, suf := range []string{"arpa", "in-addr.arpa", "ip6.arpa", "home.arpa", "e164.arpa", "uri.arpa", "urn.arpa", "iris.arpa", "com.au", "co.nz", "com.br", "co.jp", "ne.jp", "k12.ca.us", "pvt.k12.ma.us", "cc.ny.us",
			"gov.uk", "ac.uk", "sch.uk", "com.cn", "xn--55qx5d.cn", "edu.pl", "gov.pl", "tokyo.jp", "nom.br", "mm", "com.mm", "bd", "co.bd", "er", "fk", "kawasaki.jp", "city.kawasaki.jp", "nagoya.jp", "city.nagoya.jp",
			"s3.amazonaws.com", "amazonaws.com", "fastly.net", "global.ssl.fastly.net", "compute.amazonaws.com", "us-east-1.elb.amazonaws.com", "cloudfront.net", "herokuapp.com", "appspot.com", "web.app", "pages.dev", "netlify.app", "azurewebsites.net", "gitlab.io",
			"dyndns.org", "blogspot.co.uk", "blogspot.com.au", "co.com", "uk.com", "us.com", "eu.org", "test", "example", "invalid", "localhost", "onion", "internal", "lan", "home", "corp"} {
			hosts = append(hosts, suf, "a."+suf, "b.a."+suf)
		}
		exhaustive := true
		var mu sync.Mutex
		c.parallel(len(hosts), func(i int) {
			if c.Expired() {
				mu.Lock()
				exhaustive = false
				mu.Unlock()
				return
			}
			h := hosts[i]
			for _, scheme := range []string{"http", "https", "ws"} {
				for _, tail := range c17Tails {
					c17CheckURL(c, scheme+"://"+h+tail, c17Sources, srcDomains, cnt)
				}
			}
			// schemes of other lengths (a stride of the host names)
			if i%11 == 0 {
				for _, scheme := range []string{"chrome-extension", "safari-web-extension", "x"} {
					c17CheckURL(c, scheme+"://"+h+"/p?q=1", c17Sources[:8], srcDomains[:8], cnt)
				}
			}
			// hostname requests
			r := rules.NewRequestForHostname(h)
			if r.Hostname != h || r.Domain != refDomain(h) || r.URL != "http://"+h || r.URLLowerCase != r.URL || !r.IsHostnameRequest || r.ThirdParty || r.RequestType != rules.TypeDocument {
				c.Run.Violate(ev.Violation{Pred: "hostname-request-fields", Sig: map[string]any{"hostname": h},
					What: fmt.Sprintf("NewRequestForHostname(%q): %+v; expected Domain %q", h, *r, refDomain(h)), Replay: map[string]any{"url": "http://" + h}})
			}
			if i%7001 == 0 {
				c.Run.Sample(map[string]any{"host": h, "registrable_domain": refDomain(h), "urls": []string{"https://" + h + c17Tails[3], "ws://" + h + c17Tails[5]}})
			}
		})
		// histories on one reused Request object (the DNS engine's pool path): every
		// ordered pair and a diagonal of triples over a host set
		reuse := []string{"co.uk", "uk", "example.co.uk", "shop.example.co.uk", "www.ck", "foo.ck", "www.bar.foo.ck", "bar.foo.ck", "kobe.jp", "city.kobe.jp", "a.city.kobe.jp",
			"x.kobe.jp", "a.x.kobe.jp", "github.io", "user.github.io", "a.user.github.io", "io", "amazonaws.com", "www.amazonaws.com", "s3.amazonaws.com", "bucket.s3.amazonaws.com", "com", "example.com",
			"www.example.com", "localhost", "db.localhost", "local", "example.local", "a.example.local", "1.2.3.4", "4", "3.4", "blogspot.com", "a.blogspot.com", "example", "a.example", "EXAMPLE.COM", "www.EXAMPLE.com"}
		fresh := map[string]rules.Request{}
		for _, h := range reuse {
			fresh[h] = *rules.NewRequestForHostname(h)
		}
		sameReq := func(a, b rules.Request) bool {
			return a.URL == b.URL && a.URLLowerCase == b.URLLowerCase && a.Hostname == b.Hostname && a.Domain == b.Domain && a.RequestType == b.RequestType &&
				a.ThirdParty == b.ThirdParty && a.IsHostnameRequest == b.IsHostnameRequest
		}
		var reuseEvals int64
		// a request object that was built for a URL, then filled for a host name
		for _, h2 := range reuse {
			for _, u := range []string{"https://" + h2 + "/ads/banner.js?q=1", "https://other.example.net/p", "wss://" + strings.ToUpper(h2) + ":8080/"} {
				for _, src := range []string{"", "https://third.example.org/"} {
					r := rules.NewRequest(u, src, rules.TypeScript)
					rules.FillRequestForHostname(r, h2)
					reuseEvals++
					if !sameReq(*r, fresh[h2]) {
						c.Run.Violate(ev.Violation{Pred: "refilled-request-equals-fresh", Sig: map[string]any{"first": u, "second": h2},
							What: fmt.Sprintf("FillRequestForHostname(%q) on a request built by NewRequest(%q, %q): URL=%q URLLowerCase=%q Hostname=%q Domain=%q ThirdParty=%v IsHostnameRequest=%v type=%d; a fresh hostname request has URL=%q Domain=%q", h2, u, src, r.URL, r.URLLowerCase, r.Hostname, r.Domain, r.ThirdParty, r.IsHostnameRequest, r.RequestType, fresh[h2].URL, fresh[h2].Domain), Replay: map[string]any{"url": "http://" + h2}})
					}
				}
			}
		}
		for _, h1 := range reuse {
			for _, h2 := range reuse {
				r := &rules.Request{}
				rules.FillRequestForHostname(r, h1)
				rules.FillRequestForHostname(r, h2)
				reuseEvals++
				if !sameReq(*r, fresh[h2]) {
					c.Run.Violate(ev.Violation{Pred: "refilled-request-equals-fresh", Sig: map[string]any{"first": h1, "second": h2},
						What: fmt.Sprintf("FillRequestForHostname(%q) on a request previously filled for %q gives Hostname=%q Domain=%q, a fresh request has Domain=%q", h2, h1, r.Hostname, r.Domain, fresh[h2].Domain), Replay: map[string]any{"url": "http://" + h2}})
				}
				for _, h3 := range []string{h1, reuse[(len(h1)+len(h2))%len(reuse)]} {
					rules.FillRequestForHostname(r, h3)
					reuseEvals++
					if !sameReq(*r, fresh[h3]) {
						c.Run.Violate(ev.Violation{Pred: "refilled-request-equals-fresh", Sig: map[string]any{"first": h1, "second": h2, "third": h3},
							What: fmt.Sprintf("third refill for %q after %q, %q gives Domain=%q, fresh %q", h3, h1, h2, r.Domain, fresh[h3].Domain), Replay: map[string]any{"url": "http://" + h3}})
					}
					rules.FillRequestForHostname(r, h2)
				}
			}
		}
		// consecutive NewRequestForHostname calls (state remembered between calls would show)
		for _, h1 := range reuse {
			for _, h2 := range reuse {
				rules.NewRequestForHostname(h1)
				r2 := rules.NewRequestForHostname(h2)
				reuseEvals++
				if r2.Domain != refDomain(h2) || r2.Hostname != h2 {
					c.Run.Violate(ev.Violation{Pred: "hostname-request-after-another", Sig: map[string]any{"first": h1, "second": h2},
						What: fmt.Sprintf("NewRequestForHostname(%q) right after NewRequestForHostname(%q): Domain=%q, Public Suffix List gives %q", h2, h1, r2.Domain, refDomain(h2)), Replay: map[string]any{"url": "http://" + h2}})
				}
				u1, u2 := "https://"+h1+"/a", "https://"+h2+"/b"
				rules.NewRequest(u1, u2, rules.TypeScript)
				q2 := rules.NewRequest(u2, u1, rules.TypeScript)
				reuseEvals++
				if q2.Domain != refDomain(h2) || q2.SourceDomain != refDomain(h1) {
					c.Run.Violate(ev.Violation{Pred: "request-after-another", Sig: map[string]any{"first": h1, "second": h2},
						What: fmt.Sprintf("NewRequest(%q from %q) right after the swapped request: Domain=%q SourceDomain=%q, expected %q %q", u2, u1, q2.Domain, q2.SourceDomain, refDomain(h2), refDomain(h1)), Replay: map[string]any{"url": u2}})
				}
			}
		}
		cnt.mu.Lock()
		cnt.evals += reuseEvals
		cnt.mu.Unlock()
		c.Run.Set("reused_request_histories", reuseEvals)
		// length cap
		for _, n := range []int{4095, 4096, 4097, 9000} {
			for _, h := range []string{"example.com", "www.example.co.uk"} {
				base := "https://" + h + "/P?"
				u := base + strings.Repeat("Aa", (n-len(base))/2+1)
				u = u[:n]
				c17CheckURL(c, u, c17Sources[:3], srcDomains[:3], cnt)
				// the cap falls inside a multi-byte letter of a URL that is longer than the cap (both alignments)
				for _, b2 := range []string{base, base + "x"} {
					long := b2 + strings.Repeat("\u00c9", 4200)
					c17CheckURL(c, long, c17Sources[:3], srcDomains[:3], cnt)
					c17CheckURL(c, long[:4096], c17Sources[:3], srcDomains[:3], cnt)
				}
				// a letter whose lower case has another byte length before the cap
				kv := base + "\u212a\u023a" + strings.Repeat("Aa", (n-len(base))/2+1)
				c17CheckURL(c, kv[:n+3], c17Sources[:3], srcDomains[:3], cnt)
				// the cap falls inside a multi-byte letter
				mb := base + strings.Repeat("Ж", (n-len(base))/2+2)
				c17CheckURL(c, mb[:n], c17Sources[:3], srcDomains[:3], cnt)
				c17CheckURL(c, mb[:n+1], c17Sources[:3], srcDomains[:3], cnt)
			}
		}
		// corpus layer: the recorded real requests of testdata/requests.json whose
		// URL has the shape the contract covers, each from its recorded frame
		reqs := corpusRequests()
		stride := 4
		if c.Thorough() {
			stride = 1
		}
		var corpusURLs int64
		var picked []corpusRequest
		for i := 0; i < len(reqs); i += stride {
			if c17InContract(reqs[i].URL) {
				picked = append(picked, reqs[i])
			}
		}
		c.parallel(len(picked), func(i int) {
			var srcs, doms []string
			if f := picked[i].Frame; c17InContract(f) {
				if pu, err := url.Parse(f); err == nil && pu.Hostname() != "" {
					srcs, doms = []string{pu.Hostname()}, []string{refDomain(pu.Hostname())}
				}
			}
			c17CheckURL(c, picked[i].URL, srcs, doms, cnt)
		})
		corpusURLs = int64(len(picked))
		c.Run.Set("corpus_urls", corpusURLs)
		c.Run.Set("hostnames", int64(len(hosts)))
		c.Run.Set("evaluations", cnt.evals)
		c.Run.Set("distinct_nontrivial", cnt.nontrivial)
		c.Run.Set("rule", fmt.Sprintf("every hostname of 1..%d labels over %d labels (ICANN, private, wildcard and exception PSL rules, unknown TLDs, numeric labels) x 3 schemes x %d tails x (%d sources + none), each compared with net/url and publicsuffix, plus the symmetric request; distinct_nontrivial = distinct URLs", maxLabels, len(c17Labels), len(c17Tails), len(c17Sources)))
		c.Run.Set("exhaustive", exhaustive)
		c.Run.Assumption("URLs the standard parser rejects are outside the quantifier; a fragment directly after the host is outside the contract")
		c.Run.Assumption("only the label alphabet is covered, not every rule of the Public Suffix List")
	})
}
