package props

import (
	"fmt"
	"net/netip"
	"os"
	"path/filepath"
	"strings"
	"sync"
	"sync/atomic"

	"github.com/AdguardTeam/urlfilter"
	"github.com/AdguardTeam/urlfilter/filterlist"
	"github.com/AdguardTeam/urlfilter/filterutil"
	"github.com/AdguardTeam/urlfilter/rules"

	"verif/enum"
	"verif/ev"
)

// C18 — hosts-file lines yield exactly the listed names with the given address.

var (
	c18Addrs    = []string{"0.0.0.0", "127.0.0.1", "::", "::1", "::ffff:1.2.3.4", "fe80::1", ""} // "" = bare-domain form
	c18Seps     = []string{" ", "\t", "  ", " \t"}
	c18Names    = []string{"example.org", "a.b.test", "x-1.test"}
	c18Comments = []string{"", "#c", " #c", "\t#c", " # c x", " ## c", "#", " #", "  # 0.0.0.0 other.test", " # see https://example.com/list", " # a@b.c | $x ^ * ||ads^$third-party",
		// element-hiding markers inside a comment
		" ### added", " # see issue##12", " # was: host#@#.banner", " # x #?# y",
		// longer than the 4 KiB read buffer, with a tail that is host syntax on its own
		" # " + strings.Repeat("-", 4090) + " 0.0.0.0 ghost.test"}
	c18Trailing = []string{"", " ", "\t "}
)

type c18Line struct {
	line  string
	addr  string
	names []string
}

// c18Collide is a pair of distinct names with equal FastHash: a line lists the
// first one, probes ask for the second one.
var c18Collide = sync.OnceValues(func() (string, string) { return enum.CollidingHosts() })

func c18Probes(names []string) []string {
	seen := map[string]bool{}
	var out []string
	add := func(s string) {
		if s != "" && !seen[s] {
			seen[s] = true
			out = append(out, s)
		}
	}
	for _, n := range c18Names {
		add(n)
	}
	for _, n := range names {
		add(n)
		add(n[:len(n)-1])
		add(n[1:])
		add("x" + n)
		add(n + "x")
		add("sub." + n)
	}
	add("other.test")
	add("ghost.test")
	add("c")
	hA, hB := c18Collide()
	add(hA)
	add(hB)
	return out
}

func c18Check(c *Ctx, l c18Line, engine bool) {
	sig := map[string]any{"line": l.line}
	replay := map[string]any{"line": l.line, "addr": l.addr, "names": l.names}
	bad := func(pred, what string) {
		c.Run.Violate(ev.Violation{Pred: pred, Sig: sig, What: what, Replay: replay})
	}
	wantIP := netip.IPv4Unspecified()
	if l.addr != "" {
		wantIP = netip.MustParseAddr(l.addr)
	}
	var viaNewRule rules.Rule
	var err error
	if p := protect(func() { viaNewRule, err = rules.NewRule(l.line, 7) }); p != nil {
		bad("no-crash", fmt.Sprintf("NewRule(%q) panics: %v", l.line, p))
		return
	}
	hr, ok := viaNewRule.(*rules.HostRule)
	if !ok {
		bad("line-is-a-host-rule", fmt.Sprintf("NewRule(%q) = %T (err %v), expected a host rule for %v", l.line, viaNewRule, err, l.names))
		return
	}
	hr2, err2 := rules.NewHostRule(strings.TrimSpace(l.line), 7)
	for which, h := range []*rules.HostRule{hr, hr2} {
		name := []string{"NewRule", "NewHostRule"}[which]
		if h == nil {
			bad("line-is-a-host-rule", fmt.Sprintf("%s(%q) failed: %v", name, l.line, err2))
			continue
		}
		if !eqStrings(h.Hostnames, l.names) {
			bad("hostnames-equal-listed-names", fmt.Sprintf("%s(%q).Hostnames = %q, listed names are %q", name, l.line, h.Hostnames, l.names))
		}
		if h.IP != wantIP {
			bad("address-equals-written-address", fmt.Sprintf("%s(%q).IP = %s, expected %s", name, l.line, h.IP, wantIP))
		}
		if h.FilterListID != 7 || h.Text() != strings.TrimSpace(l.line) {
			bad("text-and-list-id", fmt.Sprintf("%s(%q): Text()=%q list=%d", name, l.line, h.Text(), h.FilterListID))
		}
		listed := map[string]bool{}
		for _, n := range l.names {
			listed[n] = true
		}
		for _, p := range c18Probes(l.names) {
			if h.Match(p) != listed[p] {
				bad("match-iff-listed", fmt.Sprintf("%s(%q).Match(%q) = %v, listed=%v", name, l.line, p, h.Match(p), listed[p]))
			}
		}
	}
	if !engine {
		return
	}
	e := urlfilter.NewDNSEngine(stringStorage(l.line + "\n"))
	st2, err2 := filterlist.NewRuleStorage([]filterlist.RuleList{&filterlist.StringRuleList{ID: 3, RulesText: "! hosts\n" + l.line + "\n", IgnoreCosmetic: true}})
	if err2 != nil {
		panic(HarnessError(err2.Error()))
	}
	e2 := urlfilter.NewDNSEngine(st2)
	listed := map[string]bool{}
	for _, n := range l.names {
		listed[n] = true
	}
	for _, p := range c18Probes(l.names) {
		res, matched := e.MatchRequest(&urlfilter.DNSRequest{Hostname: p, DNSType: 1})
		n4, n6 := len(res.HostRulesV4), len(res.HostRulesV6)
		want4, want6 := 0, 0
		if listed[p] {
			if wantIP.Is4() {
				want4 = 1
			} else {
				want6 = 1
			}
		}
		// set semantics: a line that lists a name twice may yield the rule twice
		if (n4 > 0) != (want4 > 0) || (n6 > 0) != (want6 > 0) || matched != listed[p] || res.NetworkRule != nil {
			bad("engine-returns-rule-iff-listed", fmt.Sprintf("DNSEngine over %q, query %q: matched=%v v4=%d v6=%d network=%s; expected matched=%v v4=%d v6=%d", l.line, p, matched, n4, n6, renderNetText(res.NetworkRule), listed[p], want4, want6))
		}
		// the other routes: the list loaded with IgnoreCosmetic under another id and behind a header line, asked through Match(hostname)
		res2, matched2 := e2.Match(p)
		if m4, m6 := len(res2.HostRulesV4), len(res2.HostRulesV6); m4 != n4 || m6 != n6 || matched2 != matched {
			bad("engine-returns-rule-iff-listed", fmt.Sprintf("DNSEngine over %q in a list loaded with IgnoreCosmetic (id 3, after a comment line), Match(%q): matched=%v v4=%d v6=%d; the plain list through MatchRequest gives matched=%v v4=%d v6=%d", l.line, p, matched2, m4, m6, matched, n4, n6))
		}
	}
}

// c18ParseWritten reads a line of the grammar without the library: address,
// names, optional comment.  ok is false for lines outside the grammar.
func c18ParseWritten(line string) (l c18Line, ok bool) {
	body := line
	if i := strings.IndexByte(body, '#'); i >= 0 {
		if i+1 < len(body) && strings.IndexByte("#@?$%", body[i+1]) >= 0 && (i == 0 || body[i-1] != ' ' && body[i-1] != '\t') {
			return l, false // element-hiding syntax
		}
		body = body[:i]
	}
	fields := strings.FieldsFunc(body, func(r rune) bool { return r == ' ' || r == '\t' })
	if len(fields) == 0 || strings.TrimSpace(body) != strings.Trim(body, " \t") {
		return l, false
	}
	for _, f := range fields {
		for _, ch := range f {
			if ch > 0x7e || ch < 0x21 {
				return l, false
			}
		}
	}
	l.line = line
	if len(fields) == 1 {
		if !filterutil.IsDomainName(fields[0]) || strings.IndexByte(line, '#') >= 0 {
			return l, false
		}
		l.names = fields
		return l, true
	}
	a, err := netip.ParseAddr(fields[0])
	if err != nil || a.Zone() != "" {
		return l, false
	}
	l.addr = fields[0]
	l.names = fields[1:]
	return l, true
}

// c18BigList: one engine over several hundred hosts lines (the per-line checks
// above never give a lookup table more than a handful of names): every listed
// name is answered with exactly the lines that list it.
func c18BigList(c *Ctx) (evals int64) {
	for _, n := range []int{100, 509, 1200} {
		var lines []string
		listedBy := map[string][]string{}
		add := func(line string, names ...string) {
			lines = append(lines, line)
			for _, nm := range names {
				listedBy[nm] = append(listedBy[nm], line)
			}
		}
		for i := 0; i < n; i++ {
			nm := fmt.Sprintf("h%04d.big.test", i)
			add("0.0.0.0 "+nm, nm)
		}
		add("192.168.0.1 dual.big.test", "dual.big.test")
		add("0.0.0.0 victim.big.test", "victim.big.test")
		add("2000::1 dual.big.test", "dual.big.test")
		for _, k := range []int{9, 17, 33} {
			var names []string
			for j := 0; j < k; j++ {
				names = append(names, fmt.Sprintf("m%d-%02d.big.test", k, j))
			}
			add("10.0.0."+fmt.Sprint(k)+" "+strings.Join(names, " "), names...)
		}
		for _, nLists := range []int{1, 6} {
			ids := []int{50, 10, 40, 20, 30, 15}
			texts := make([][]string, nLists)
			for i, l := range lines {
				texts[i%nLists] = append(texts[i%nLists], l)
			}
			var rls []filterlist.RuleList
			for li, t := range texts {
				rls = append(rls, &filterlist.StringRuleList{ID: ids[li], RulesText: "! header of list " + fmt.Sprint(ids[li]) + strings.Repeat("-", li) + "\n" + joinLines(t) + "\n"})
			}
			stg, err := filterlist.NewRuleStorage(rls)
			if err != nil {
				panic(HarnessError(err.Error()))
			}
			e := urlfilter.NewDNSEngine(stg)
			probes := []string{"dual.big.test", "victim.big.test", "h0000.big.test", fmt.Sprintf("h%04d.big.test", n-1), fmt.Sprintf("h%04d.big.test", n/2), "absent.big.test", "m9-00.big.test", "m9-08.big.test", "m17-16.big.test", "m33-32.big.test", "m33-15.big.test", "m33-33.big.test"}
			for i := 0; i < n; i += n/50 + 1 {
				probes = append(probes, fmt.Sprintf("h%04d.big.test", i))
			}
			for _, p := range probes {
				evals++
				res, matched := e.MatchRequest(&urlfilter.DNSRequest{Hostname: p, DNSType: 1})
				var got []string
				for _, h := range res.HostRulesV4 {
					got = append(got, h.RuleText)
				}
				for _, h := range res.HostRulesV6 {
					got = append(got, h.RuleText)
				}
				if !eqStrings(sortedSet(got), sortedSet(listedBy[p])) || matched != (len(listedBy[p]) > 0) {
					c.Run.Violate(ev.Violation{Pred: "engine-returns-rule-iff-listed", Sig: map[string]any{"big_list": n, "query": p},
						What:   fmt.Sprintf("DNSEngine over %d hosts lines, query %q: matched=%v rules=%v; the lines that list the name are %v", len(lines), p, matched, got, listedBy[p]),
						Replay: map[string]any{"line": "0.0.0.0 example.org", "addr": "0.0.0.0", "names": []string{"example.org"}}})
					return evals
				}
			}
		}
	}
	return evals
}

var c18FileSeq atomic.Int64

// c18FileEngine asks the DNS engine over three *file-backed* lists: a list with
// another rule, an empty list, and a list that holds another hosts line followed
// by the line under test as its last line without a terminator; the other
// line's name is asked first.
func c18FileEngine(c *Ctx, l c18Line) {
	dir := os.Getenv("VERIF_WORK")
	contents := []string{"! comment\n0.0.0.0 first.test\n", "", "0.0.0.0 warm.test\n" + l.line}
	var ls []filterlist.RuleList
	var files []*filterlist.FileRuleList
	var paths []string
	for i, ct := range contents {
		p := filepath.Join(dir, fmt.Sprintf("c18-%d-%d.txt", os.Getpid(), c18FileSeq.Add(1)))
		if err := os.WriteFile(p, []byte(ct), 0o644); err != nil {
			panic(HarnessError(err.Error()))
		}
		paths = append(paths, p)
		fl, err := filterlist.NewFileRuleList(i+1, p, false)
		if err != nil {
			panic(HarnessError(err.Error()))
		}
		files = append(files, fl)
		ls = append(ls, fl)
	}
	defer func() {
		for i, fl := range files {
			_ = fl.Close()
			_ = os.Remove(paths[i])
		}
	}()
	st, err := filterlist.NewRuleStorage(ls)
	if err != nil {
		panic(HarnessError(err.Error()))
	}
	e := urlfilter.NewDNSEngine(st)
	listed := map[string]bool{"warm.test": true, "first.test": true}
	for _, n := range l.names {
		listed[n] = true
	}
	for _, p := range append([]string{"warm.test", "first.test"}, c18Probes(l.names)...) {
		res, matched := e.MatchRequest(&urlfilter.DNSRequest{Hostname: p, DNSType: 1})
		if (len(res.HostRulesV4)+len(res.HostRulesV6) > 0) != listed[p] || matched != listed[p] {
			c.Run.Violate(ev.Violation{Pred: "engine-returns-rule-iff-listed", Sig: map[string]any{"line": l.line, "backing": "three file lists"},
				What:   fmt.Sprintf("DNSEngine over three file-backed lists (a rule, an empty list, a hosts line followed by %q as the unterminated last line), query %q: matched=%v v4=%d v6=%d; listed=%v", l.line, p, matched, len(res.HostRulesV4), len(res.HostRulesV6), listed[p]),
				Replay: map[string]any{"line": l.line, "addr": l.addr, "names": l.names}})
			return
		}
	}
}

func init() {
	register("C18", "exploration", func(c *Ctx) {
		if c.Replay != nil {
			l := c18Line{line: c.Replay["line"].(string), addr: c.Replay["addr"].(string)}
			for _, n := range c.Replay["names"].([]any) {
				l.names = append(l.names, n.(string))
			}
			c18Check(c, l, true)
			c18FileEngine(c, l)
			return
		}
		var lines []c18Line
		seen := map[string]bool{}
		add := func(l c18Line) {
			if !seen[l.line] {
				seen[l.line] = true
				lines = append(lines, l)
			}
		}
		maxNames := 3
		if c.Thorough() {
			maxNames = 4
		}
		hA, _ := c18Collide()
		nameAlpha := append(append([]string{}, c18Names...), hA, "ad_server.test", "printer.lan.1", "CDN.Example.ORG", "gw.home.arpa.")
		build := func(nameAlpha []string, nn int, seps []string) {
			for _, addr := range c18Addrs {
				if addr == "" && nn != 1 {
					continue
				}
				enum.Sequences(len(nameAlpha), nn, func(ns []int) bool {
					if addr == "" && !filterutil.IsDomainName(nameAlpha[ns[0]]) {
						return true // the bare-domain form is only defined for domain names
					}
					for _, sep := range seps {
						names := make([]string, nn)
						for i, k := range ns {
							names[i] = nameAlpha[k]
						}
						body := strings.Join(names, sep)
						if addr != "" {
							body = addr + sep + body
						}
						for _, cm := range c18Comments {
							for _, tr := range c18Trailing {
								add(c18Line{line: body + cm + tr, addr: addr, names: names})
							}
						}
						// a comment whose tail, host syntax on its own, starts exactly at byte 4096 / 8192 of the line
						for _, at := range []int{4096, 8192} {
							if pad := at - len(body) - len(" # "); pad > 0 && nn == 1 {
								add(c18Line{line: body + " # " + strings.Repeat("-", pad-1) + " " + "0.0.0.0 ghost.test", addr: addr, names: names})
							}
						}
					}
					return true
				})
			}
		}
		for nn := 1; nn <= maxNames; nn++ {
			build(nameAlpha, nn, c18Seps)
		}
		if c.Thorough() {
			for nn := 5; nn <= 8; nn++ {
				build(c18Names[:2], nn, c18Seps[:2])
			}
		}
		// the longest names that are still domain names (253 bytes), as bare-domain and address lines
		for _, total := range []int{252, 253} {
			lab := strings.Repeat("a", 61)
			name := lab + "." + lab + "." + lab + "."
			name += strings.Repeat("b", total-len(name)-5) + ".test"
			if len(name) != total {
				panic(HarnessError("long name has the wrong length"))
			}
			for _, cm := range []string{"", " # c", "  "} {
				add(c18Line{line: name + cm, addr: "", names: []string{name}})
				add(c18Line{line: "0.0.0.0 " + name + cm, addr: "0.0.0.0", names: []string{name}})
			}
		}
		// mixed separators inside one line
		for _, s1 := range c18Seps {
			for _, s2 := range c18Seps {
				for _, cm := range c18Comments {
					add(c18Line{line: "0.0.0.0" + s1 + "example.org" + s2 + "a.b.test" + cm, addr: "0.0.0.0", names: []string{"example.org", "a.b.test"}})
				}
			}
		}
		var mu sync.Mutex
		exhaustive := true
		fileStride := 97
		if c.Thorough() {
			fileStride = 13
		}
		c.parallel(len(lines), func(i int) {
			if c.Expired() {
				mu.Lock()
				exhaustive = false
				mu.Unlock()
				return
			}
			c18Check(c, lines[i], c.Thorough() || i%3 == 0)
			if i%fileStride == 0 {
				c18FileEngine(c, lines[i])
			}
			if i%20011 == 0 {
				c.Run.Sample(map[string]any{"line": lines[i].line, "address": lines[i].addr, "names": lines[i].names})
			}
		})
		// corpus layer: every line of the bundled hosts file that is in the grammar
		var corpus []c18Line
		for _, ln := range corpusLines("testdata/hosts") {
			if l, ok := c18ParseWritten(strings.TrimRight(ln, "\r")); ok {
				corpus = append(corpus, l)
			}
		}
		cstride := 5
		if c.Thorough() {
			cstride = 1
		}
		var picked []c18Line
		for i := 0; i < len(corpus); i += cstride {
			picked = append(picked, corpus[i])
		}
		c.parallel(len(picked), func(i int) {
			if c.Expired() {
				mu.Lock()
				exhaustive = false
				mu.Unlock()
				return
			}
			c18Check(c, picked[i], false)
		})
		// names whose last character ends in each possible UTF-8 continuation byte, as the last thing on the line
		// (through the one-line engine: the rule is read back from the list on the first query)
		var edge int64
		for _, lead := range []string{"\xc3", "\xd0", "\xd1"} {
			for b := 0x80; b <= 0xbf; b++ {
				name := "www.citt" + lead + string([]byte{byte(b)})
				for _, l := range []c18Line{{line: "0.0.0.0 " + name, addr: "0.0.0.0", names: []string{name}}, {line: "0.0.0.0 first.test " + name, addr: "0.0.0.0", names: []string{"first.test", name}}} {
					// (whether such a name is a host name at all is the parser's decision: only accepted lines are followed up)
					if r, err := rules.NewRule(l.line, 1); err == nil && r != nil {
						if _, isHost := r.(*rules.HostRule); isHost {
							c18Check(c, l, true)
							edge++
						}
					}
				}
			}
		}
		c.Run.Set("last_byte_lines", edge)
		c.Run.Set("big_list_evaluations", c18BigList(c))
		c.Run.Set("corpus_lines", int64(len(picked)))
		c.Run.Set("evaluations", int64(len(lines)+len(picked)))
		c.Run.Set("distinct_nontrivial", int64(len(lines)))
		c.Run.Set("rule", fmt.Sprintf("grammar expansion: 7 address forms (incl. bare domain) x 4 separators x name sequences of length 1..%d over %d names (incl. colliding hashes, underscore, numeric last label, upper case, trailing dot) x %d comment forms (incl. element-hiding markers and a 4 KiB comment) x 3 trailing blanks (+ mixed separators; thorough: 5..8 names over 2 names); every line distinct; each through NewRule, NewHostRule, HostRule.Match on listed/truncated/extended names and (quick: every third line) a one-line DNSEngine; corpus layer: the lines of the bundled hosts file that are in the grammar, against an independent parse", maxNames, len(nameAlpha), len(c18Comments)))
		c.Run.Set("exhaustive", exhaustive)
		c.Run.Assumption("a double '#' is generated only after a space (otherwise the line is element-hiding syntax)")
	})
}
