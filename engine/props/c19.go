package props

import (
	"fmt"
	"os"
	"path/filepath"
	"strings"
	"sync"
	"sync/atomic"
	"time"

	"github.com/AdguardTeam/urlfilter"
	"github.com/AdguardTeam/urlfilter/filterlist"
	"github.com/AdguardTeam/urlfilter/rules"
	shim "github.com/AdguardTeam/urlfilter/verifshim"

	"verif/enum"
	"verif/ev"
	"verif/scen"
)

// C19 — unreadable rule lists degrade results to a subset, never crash or lie.
// Fault enumeration: every query history x every fault point x every fault kind.

var c19Lists = []scen.ListSpec{
	{ID: 1, Text: "! list 1 (file)\n||example.org^\n||example.org/ads\n/ex[a-z]+le\\.net/\n/ad$domain=example.org\n@@||example.org^$generichide\n##.g1\nexample.org##.s1\n/x$domain=example.org\n/x$domain=sub.example.org\n/x$domain=org\n/ads$domain=b.test\n/pix$domain=a.test|b.test\n" + c19BigRule() + "\n/cand0x\n/cand1x\n/cand2x\n/cand3x\n/cand4x\n/cand5x\n/cand6x\n/cand7x\n/cand8x\n/cand9x\n/cachedx\n"},
	{ID: 2, Text: "# list 2 (file)\n||ads.example.com^\n0.0.0.0 example.org\n:: example.org\n127.0.0.1 hosts.test alias.test\n||blocked.test^$client=10.0.0.1\n/h[o0]sts\\.test/\n||rw.test^$dnsrewrite=1.2.3.4\n0.0.0.0 shared.test\n0.0.0.0 only.test shared.test\n||shared2.test^\n||only2.test^$important\n||twin.test^\n||twin.test^$important\n"},
}

// c19BigRule returns a rule of about 1.5 KiB.
func c19BigRule() string {
	s := "/bigrule$domain=example.org"
	for i := 0; i < 100; i++ {
		s += fmt.Sprintf("|big%03d.test", i)
	}
	return s
}

// (the $badfilter twin of a rule of file list 2 lives in the list that is never unreadable: after the fault
// it is the only rule left that matches twin.test)
var c19StringList = scen.ListSpec{ID: 3, Text: "||string.test^\n0.0.0.0 string-host.test\n||twin.test^$badfilter\n"}

func c19Queries() []scen.Query {
	return []scen.Query{
		{Kind: "netall", URL: "http://example.org/ads", Src: "http://example.org/", Type: rules.TypeScript},
		{Kind: "netall", URL: "http://ads.example.com/x", Type: rules.TypeImage},
		{Kind: "netall", URL: "http://exaample.net/", Type: rules.TypeScript},
		{Kind: "dns", Host: "example.org", DNSType: 1},
		{Kind: "dns", Host: "hosts.test", DNSType: 1},
		{Kind: "dns", Host: "blocked.test", DNSType: 1, Client: "laptop", IP: "10.0.0.1"},
		{Kind: "engine", URL: "http://example.org/ads", Src: "http://example.org/", Type: rules.TypeScript},
		{Kind: "netall", URL: "http://string.test/", Type: rules.TypeScript},
		{Kind: "dns", Host: "string-host.test", DNSType: 1},
		{Kind: "dns", Host: "rw.test", DNSType: 1},
		// two host rules in one bucket: the later one can be in memory (through its
		// other name) while the earlier one is not
		// several $domain rules found through different dot-suffixes of one source host
		{Kind: "netall", URL: "http://y.test/x", Src: "http://example.org/", Type: rules.TypeScript},
		{Kind: "netall", URL: "http://y.test/x", Src: "http://sub.example.org/", Type: rules.TypeScript},
		// a rule filed under two $domain values: materialised through one of them,
		// asked for through the other, whose bucket starts with a rule that is not in memory
		{Kind: "netall", URL: "http://y.test/pix/ads", Src: "http://a.test/", Type: rules.TypeScript},
		{Kind: "netall", URL: "http://y.test/pix/ads", Src: "http://b.test/", Type: rules.TypeScript},
		{Kind: "netall", URL: "http://y.test/bigrule", Src: "http://big099.test/", Type: rules.TypeScript},
		// one rule of a URL's many candidates is in memory, the ten in front of it are not
		{Kind: "netall", URL: "http://y.test/cachedx", Type: rules.TypeScript},
		{Kind: "netall", URL: "http://y.test/cand0x/cand1x/cand2x/cand3x/cand4x/cand5x/cand6x/cand7x/cand8x/cand9x/cachedx", Type: rules.TypeScript},
		{Kind: "dns", Host: "only.test", DNSType: 1},
		{Kind: "dns", Host: "shared.test", DNSType: 1},
		// a rule whose $badfilter twin is in the string-backed list
		{Kind: "dns", Host: "twin.test", DNSType: 1},
		{Kind: "netmatch", URL: "http://twin.test/", Type: rules.TypeScript},
		// not a query: further engines are built over the same storage (their
		// results are not looked at; the engines built first must not notice)
		{Kind: "newengine"},
	}
}

var c19FaultKinds = []string{"storage.Close()", "list 1 handle replaced by a closed file", "list 2 handle replaced by a closed file", "both handles replaced by closed files", "both handles replaced by handles of an empty file (every read ends at once)"}

// c19Build builds engines over two file lists and one string list.
func c19Build() (*scen.Engines, *filterlist.RuleStorage, []*filterlist.FileRuleList) {
	var ls []filterlist.RuleList
	var fls []*filterlist.FileRuleList
	for _, l := range c19Lists {
		fl, err := filterlist.NewFileRuleList(l.ID, scen.PathFor(l.Text), false)
		if err != nil {
			panic(HarnessError(err.Error()))
		}
		ls = append(ls, fl)
		fls = append(fls, fl)
	}
	ls = append(ls, &filterlist.StringRuleList{ID: c19StringList.ID, RulesText: c19StringList.Text})
	st, err := filterlist.NewRuleStorage(ls)
	if err != nil {
		panic(HarnessError(err.Error()))
	}
	return &scen.Engines{Net: urlfilter.NewNetworkEngine(st), DNS: urlfilter.NewDNSEngine(st), Eng: urlfilter.NewEngine(st)}, st, fls
}

func closedHandle(path string) *os.File {
	f, err := os.Open(path)
	if err != nil {
		panic(HarnessError(err.Error()))
	}
	_ = f.Close()
	return f
}

// c19Result runs q and returns the set of rule texts returned and whether each
// returned rule truly matches.
func c19Result(e *scen.Engines, q scen.Query) (texts []string, lie string) {
	switch q.Kind {
	case "netall":
		req := rules.NewRequest(q.URL, q.Src, q.Type)
		for _, r := range e.Net.MatchAll(req) {
			texts = append(texts, r.RuleText)
			if !r.Match(req) {
				lie = r.RuleText
			}
		}
	case "netmatch":
		req := rules.NewRequest(q.URL, q.Src, q.Type)
		if r, _ := e.Net.Match(req); r != nil {
			texts = append(texts, r.RuleText)
			if !r.Match(req) {
				lie = r.RuleText
			}
		}
	case "dns":
		dr := q.DNSRequest()
		res, _ := e.DNS.MatchRequest(dr)
		req := rules.NewRequestForHostname(dr.Hostname)
		req.ClientIP, req.ClientName, req.SortedClientTags, req.DNSType = dr.ClientIP, dr.ClientName, dr.SortedClientTags, dr.DNSType
		for _, r := range res.NetworkRules {
			texts = append(texts, r.RuleText)
			if !r.Match(req) {
				lie = r.RuleText
			}
		}
		if res.NetworkRule != nil && !res.NetworkRule.Match(req) {
			lie = res.NetworkRule.RuleText
		}
		for _, h := range append(append([]*rules.HostRule{}, res.HostRulesV4...), res.HostRulesV6...) {
			texts = append(texts, h.RuleText)
			if !h.Match(dr.Hostname) {
				lie = h.RuleText
			}
		}
		for _, r := range res.DNSRewrites() {
			if !r.Match(req) {
				lie = r.RuleText
			}
		}
	case "engine":
		req := rules.NewRequest(q.URL, q.Src, q.Type)
		m := e.Eng.MatchRequest(req)
		if m.BasicRule != nil {
			texts = append(texts, m.BasicRule.RuleText)
			if !m.BasicRule.Match(req) {
				lie = m.BasicRule.RuleText
			}
		}
		if m.DocumentRule != nil {
			if !m.DocumentRule.Match(rules.NewRequest(q.Src, "", rules.TypeDocument)) {
				lie = m.DocumentRule.RuleText
			}
		}
		cr := e.Eng.GetCosmeticResult("example.org", rules.CosmeticOptionAll)
		texts = append(texts, cr.ElementHiding.Generic...)
		texts = append(texts, cr.ElementHiding.Specific...)
	}
	return sortedSet(texts), lie
}

// c19MidRead injects the fault *inside* one retrieval: the storage is closed
// between two block reads of a rule that is longer than the read buffer (the
// hook point "file.read-next-chunk").  Whatever the reader had collected so far
// must not be served as a rule: results stay a subset of the rules that match.
// Sequential: the yield hook is process-wide.
func c19MidRead(c *Ctx) (evals int64) {
	for _, nDomains := range []int{400, 900} { // 4.4 KiB: fault after the 1st block; 9.9 KiB: after the 1st or the 2nd
		var ds []string
		for i := 0; i < nDomains; i++ {
			ds = append(ds, fmt.Sprintf("site%04d.test", i))
		}
		long := "/x$script,domain=" + strings.Join(ds, "|")
		text := "||pre.test^\n" + long + "\n||post.test^\n/x$domain=site0001.test\n"
		q := rules.NewRequest("http://y.test/x", fmt.Sprintf("http://site%04d.test/", nDomains-1), rules.TypeScript)
		q1 := rules.NewRequest("http://y.test/x", "http://site0001.test/", rules.TypeScript)
		truth := map[string]bool{long: true, "/x$domain=site0001.test": true}
		for faultAt := 1; faultAt <= nDomains/300; faultAt++ {
			for _, warmOther := range []bool{false, true} {
				fl, err := filterlist.NewFileRuleList(1, scen.PathFor(text), false)
				if err != nil {
					panic(HarnessError(err.Error()))
				}
				st, err := filterlist.NewRuleStorage([]filterlist.RuleList{fl})
				if err != nil {
					panic(HarnessError(err.Error()))
				}
				ne := urlfilter.NewNetworkEngine(st)
				if warmOther {
					ne.MatchAll(rules.NewRequest("http://pre.test/", "", rules.TypeScript))
				}
				chunks := 0
				filterlist.VerifYieldHook = func(point string) {
					if point == "file.read-next-chunk" {
						chunks++
						if chunks == faultAt {
							_ = st.Close()
						}
					}
				}
				desc := fmt.Sprintf("rule of %d bytes in a file list; storage closed after block %d of its retrieval", len(long), faultAt)
				for qi, rq := range []*rules.Request{q, q, q1, q} {
					var got []*rules.NetworkRule
					evals++
					if p := protect(func() { got = ne.MatchAll(rq) }); p != nil {
						c.Run.Violate(ev.Violation{Pred: "no-crash", Sig: map[string]any{"mid_read": nDomains, "fault_at_block": faultAt}, What: fmt.Sprintf("%s: query #%d panics: %v", desc, qi+1, p), Replay: map[string]any{"mid_read": true}})
						break
					}
					for _, r := range got {
						if !truth[r.RuleText] || !r.Match(rq) {
							c.Run.Violate(ev.Violation{Pred: "returned-rule-truly-matches", Sig: map[string]any{"mid_read": nDomains, "fault_at_block": faultAt, "query": qi},
								What:   fmt.Sprintf("%s: query #%d returned %q (%d bytes), which is not a rule of the list that matches the request", desc, qi+1, clip(r.RuleText), len(r.RuleText)),
								Replay: map[string]any{"mid_read": true}})
						}
					}
				}
				filterlist.VerifYieldHook = nil
				_ = fl.File.Close()
			}
		}
	}
	// two file lists, each with a rule longer than the read buffer: the file of list 1 is closed between two
	// block reads of its long rule; the long rule of the healthy list 2, read next, is served as written
	for faultAt := 1; faultAt <= 2; faultAt++ {
		mk := func(tag string, n int) (string, string) {
			var ds []string
			for i := 0; i < n; i++ {
				ds = append(ds, fmt.Sprintf("%s%04d.test", tag, i))
			}
			long := "/" + tag + "x$script,domain=" + strings.Join(ds, "|")
			return long, "||pre-" + tag + ".test^\n" + long + "\n||post-" + tag + ".test^\n"
		}
		long1, text1 := mk("one", 900)
		long2, text2 := mk("two", 700)
		fl1, err1 := filterlist.NewFileRuleList(1, scen.PathFor(text1), false)
		fl2, err2 := filterlist.NewFileRuleList(2, scen.PathFor(text2), false)
		if err1 != nil || err2 != nil {
			panic(HarnessError(fmt.Sprint(err1, err2)))
		}
		st, err := filterlist.NewRuleStorage([]filterlist.RuleList{fl1, fl2})
		if err != nil {
			panic(HarnessError(err.Error()))
		}
		ne := urlfilter.NewNetworkEngine(st)
		chunks := 0
		filterlist.VerifYieldHook = func(point string) {
			if point == "file.read-next-chunk" {
				chunks++
				if chunks == faultAt {
					_ = fl1.File.Close()
				}
			}
		}
		q1 := rules.NewRequest("http://y.test/onex", "http://one0899.test/", rules.TypeScript)
		q2 := rules.NewRequest("http://y.test/twox", "http://two0699.test/", rules.TypeScript)
		truth := map[string]bool{long1: true, long2: true}
		desc := fmt.Sprintf("two file lists with one rule of %d and one of %d bytes; the file of list 1 closed after block %d of the retrieval of its long rule", len(long1), len(long2), faultAt)
		for qi, rq := range []*rules.Request{q1, q2, q2, q1} {
			var got []*rules.NetworkRule
			evals++
			if p := protect(func() { got = ne.MatchAll(rq) }); p != nil {
				c.Run.Violate(ev.Violation{Pred: "no-crash", Sig: map[string]any{"mid_read_two_lists": faultAt}, What: fmt.Sprintf("%s: query #%d panics: %v", desc, qi+1, p), Replay: map[string]any{"mid_read": true}})
				break
			}
			for _, r := range got {
				if !truth[r.RuleText] || !r.Match(rq) {
					c.Run.Violate(ev.Violation{Pred: "returned-rule-truly-matches", Sig: map[string]any{"mid_read_two_lists": faultAt, "query": qi},
						What:   fmt.Sprintf("%s: query #%d returned %q (%d bytes), which is not a rule of the lists that matches the request", desc, qi+1, clip(r.RuleText), len(r.RuleText)),
						Replay: map[string]any{"mid_read": true}})
				}
			}
			if (qi == 1 || qi == 2) && (len(got) != 1 || got[0].RuleText != long2) {
				c.Run.Violate(ev.Violation{Pred: "materialised-rules-still-served", Sig: map[string]any{"mid_read_two_lists": faultAt, "query": qi},
					What:   fmt.Sprintf("%s: query #%d for the long rule of the healthy list 2 returns %d rules instead of that rule", desc, qi+1, len(got)),
					Replay: map[string]any{"mid_read": true}})
			}
		}
		filterlist.VerifYieldHook = nil
		_ = fl1.File.Close()
		_ = fl2.File.Close()
	}
	return evals
}

// c19LargeWorkingSet materialises n rules of one file-backed list, injects the
// fault, and asks for every one of them again: however many rules are in
// memory, they are all still served.
func c19LargeWorkingSet(c *Ctx, n int) (evals int64) {
	var sb strings.Builder
	sb.WriteString("! large list\n")
	for i := 0; i < n; i++ {
		fmt.Fprintf(&sb, "0.0.0.0 h%d.big.test\n", i)
	}
	text := sb.String()
	for kind := 0; kind < 2; kind++ {
		fl, err := filterlist.NewFileRuleList(1, scen.PathFor(text), false)
		if err != nil {
			panic(HarnessError(err.Error()))
		}
		st, err := filterlist.NewRuleStorage([]filterlist.RuleList{fl})
		if err != nil {
			panic(HarnessError(err.Error()))
		}
		e := urlfilter.NewDNSEngine(st)
		ask := func(i int) bool {
			res, ok := e.MatchRequest(&urlfilter.DNSRequest{Hostname: fmt.Sprintf("h%d.big.test", i), DNSType: 1})
			return ok && len(res.HostRulesV4) == 1 && res.HostRulesV4[0].RuleText == fmt.Sprintf("0.0.0.0 h%d.big.test", i)
		}
		for i := 0; i < n; i++ {
			evals++
			if !ask(i) {
				c.Run.Violate(ev.Violation{Pred: "fault-free-answer", Sig: map[string]any{"large_list": n}, What: fmt.Sprintf("list of %d host rules: query %d not answered before any fault", n, i), Replay: map[string]any{"large": n}})
				break
			}
		}
		if kind == 0 {
			_ = st.Close()
		} else {
			fl.File = closedHandle(scen.PathFor(text))
		}
		for i := 0; i < n; i++ {
			evals++
			served := false
			if p := protect(func() { served = ask(i) }); p != nil {
				c.Run.Violate(ev.Violation{Pred: "no-crash", Sig: map[string]any{"large_list": n}, What: fmt.Sprintf("list of %d host rules, all materialised: query %d panics after the fault: %v", n, i, p), Replay: map[string]any{"large": n}})
				break
			}
			if !served {
				c.Run.Violate(ev.Violation{Pred: "materialised-rules-still-served", Sig: map[string]any{"large_list": n},
					What: fmt.Sprintf("list of %d host rules, all materialised by queries: after %s, rule %d of %d is no longer served", n, c19FaultKinds[kind], i, n), Replay: map[string]any{"large": n}})
				break
			}
		}
		_ = fl.File.Close()
	}
	return evals
}

// c19Replaced: the list files are REPLACED ON DISK (write + rename, the ordinary
// list update) while the engines built from the old files live, and the
// descriptors are closed behind the lists.  The offsets the engines hold belong
// to the old files; whatever is at the paths now must never be served.  Every
// case works on private copies of the files.  Sequential.
var c19ReplacementKinds = []string{"every list file replaced by its old content behind one more line terminator (offsets shifted by 1)", "... behind a 2-byte comment line", "... behind a 7-byte comment line", "the two list files replaced by each other's content", "every list file replaced by an exception list of the same layout"}

func c19Replacement(kind int, li int) string {
	old := c19Lists[li].Text
	switch kind {
	case 0:
		return "\n" + old
	case 1:
		return "!\n" + old
	case 2:
		return "! upd.\n" + old
	case 3:
		return c19Lists[1-li].Text
	default:
		// same offsets for the first rules: "||example.org^" -> "@@||example.org^" would shift; keep the
		// layout by rewriting in place the characters of the comment in front of them
		return strings.Replace(strings.Replace(old, "! list 1 (file)\n||example.org^\n", "! list 1 (fil\n@@||example.org^\n", 1), "# list 2 (file)\n||ads.example.com^\n", "# list 2 (fil\n@@||ads.example.com^\n", 1)
	}
}

var c19RepSeq atomic.Int64

func c19Replaced(c *Ctx, qs []scen.Query, truth []map[string]bool, only []int) (evals, cases int64) {
	dir := os.Getenv("VERIF_WORK")
	var hists [][]int
	for q := range qs {
		if qs[q].Kind == "newengine" {
			continue
		}
		hists = append(hists, []int{q})
		for q0 := range qs {
			if qs[q0].Kind != "newengine" {
				hists = append(hists, []int{q0, q})
			}
		}
	}
	descFaults := []string{"File.Close() on both lists", "both handles replaced by closed descriptors of the same paths"}
	for rk := range c19ReplacementKinds {
		for df := range descFaults {
			for _, hist := range hists {
				if only != nil && (only[0] != rk || only[1] != df || fmt.Sprint(only[2:]) != fmt.Sprint(hist)) {
					continue
				}
				cases++
				seq := c19RepSeq.Add(1)
				var ls []filterlist.RuleList
				var fls []*filterlist.FileRuleList
				var paths []string
				for li, l := range c19Lists {
					p := filepath.Join(dir, fmt.Sprintf("c19rep-%d-%d-%d.txt", os.Getpid(), seq, li))
					if err := os.WriteFile(p, []byte(l.Text), 0o644); err != nil {
						panic(HarnessError(err.Error()))
					}
					paths = append(paths, p)
					fl, err := filterlist.NewFileRuleList(l.ID, p, false)
					if err != nil {
						panic(HarnessError(err.Error()))
					}
					ls, fls = append(ls, fl), append(fls, fl)
				}
				ls = append(ls, &filterlist.StringRuleList{ID: c19StringList.ID, RulesText: c19StringList.Text})
				st, err := filterlist.NewRuleStorage(ls)
				if err != nil {
					panic(HarnessError(err.Error()))
				}
				e := &scen.Engines{Net: urlfilter.NewNetworkEngine(st), DNS: urlfilter.NewDNSEngine(st), Eng: urlfilter.NewEngine(st)}
				var names []string
				for _, h := range hist {
					names = append(names, qs[h].String())
				}
				desc := fmt.Sprintf("history %v, before its last query: %s; %s", names, c19ReplacementKinds[rk], descFaults[df])
				replay := map[string]any{"replaced": append([]int{rk, df}, hist...)}
				for i, h := range hist {
					if i == len(hist)-1 {
						for li, p := range paths {
							if err := os.WriteFile(p+".new", []byte(c19Replacement(rk, li)), 0o644); err != nil {
								panic(HarnessError(err.Error()))
							}
							if err := os.Rename(p+".new", p); err != nil {
								panic(HarnessError(err.Error()))
							}
						}
						for li, fl := range fls {
							if df == 0 {
								_ = fl.File.Close()
							} else {
								old := fl.File
								fl.File = closedHandle(paths[li])
								_ = old.Close()
							}
						}
					}
					var got []string
					var lie string
					evals++
					if p := protect(func() { got, lie = c19Result(e, qs[h]) }); p != nil {
						c.Run.Violate(ev.Violation{Pred: "no-crash", Sig: map[string]any{"query": qs[h].String(), "replaced": rk}, What: fmt.Sprintf("%s panics: %v (%s)", qs[h], p, desc), Replay: replay})
						// a leaked lock costs the shim's 5 s wait in every later case: the layer ends here
						for li, fl := range fls {
							_ = fl.File.Close()
							_ = os.Remove(paths[li])
						}
						return evals, cases
					}
					if lie != "" {
						c.Run.Violate(ev.Violation{Pred: "returned-rule-truly-matches", Sig: map[string]any{"query": qs[h].String(), "rule": lie, "replaced": rk},
							What: fmt.Sprintf("%s returned %q which does not match the request (%s)", qs[h], lie, desc), Replay: replay})
					}
					if qs[h].Kind != "engine" {
						for _, t := range got {
							if !truth[h][t] {
								c.Run.Violate(ev.Violation{Pred: "result-subset-of-fault-free", Sig: map[string]any{"query": qs[h].String(), "extra": t, "replaced": rk},
									What: fmt.Sprintf("%s returned %q which is not among the rules of the lists the engine was built from that match the request (%s)", qs[h], t, desc), Replay: replay})
							}
						}
					}
				}
				for li, fl := range fls {
					_ = fl.File.Close()
					_ = os.Remove(paths[li])
				}
			}
		}
	}
	return evals, cases
}

// c19Heal: the fault is transient.  The handles of the file lists are replaced
// by closed descriptors, a query is asked (its retrievals fail), the original
// handles are put back, and every query is answered as a fresh engine answers
// it: a failed retrieval leaves nothing behind.
func c19Heal(c *Ctx, qs []scen.Query, oracle [][]string, only []int) (evals, cases int64) {
	for kind := 1; kind <= 3; kind++ {
		for q1 := range qs {
			if qs[q1].Kind == "newengine" {
				continue
			}
			if only != nil && (only[0] != kind || only[1] != q1) {
				continue
			}
			cases++
			e, _, fls := c19Build()
			orig := []*os.File{fls[0].File, fls[1].File}
			if kind == 1 || kind == 3 {
				fls[0].File = closedHandle(scen.PathFor(c19Lists[0].Text))
			}
			if kind == 2 || kind == 3 {
				fls[1].File = closedHandle(scen.PathFor(c19Lists[1].Text))
			}
			replay := map[string]any{"heal": []int{kind, q1}}
			if p := protect(func() { c19Result(e, qs[q1]) }); p != nil {
				c.Run.Violate(ev.Violation{Pred: "no-crash", Sig: map[string]any{"query": qs[q1].String(), "fault": c19FaultKinds[kind]}, What: fmt.Sprintf("%s panics during the fault: %v", qs[q1], p), Replay: replay})
				return evals, cases
			}
			fls[0].File, fls[1].File = orig[0], orig[1]
			for q2 := range qs {
				if qs[q2].Kind == "newengine" {
					continue
				}
				var got []string
				evals++
				if p := protect(func() { got, _ = c19Result(e, qs[q2]) }); p != nil {
					c.Run.Violate(ev.Violation{Pred: "no-crash", Sig: map[string]any{"query": qs[q2].String(), "healed": true}, What: fmt.Sprintf("%s panics after the handles were put back: %v", qs[q2], p), Replay: replay})
					return evals, cases
				}
				if !eqStrings(got, oracle[q2]) {
					c.Run.Violate(ev.Violation{Pred: "fault-free-answer", Sig: map[string]any{"query": qs[q2].String(), "asked_during_fault": qs[q1].String(), "fault": c19FaultKinds[kind]},
						What:   fmt.Sprintf("%s; %s asked while the lists could not be read; the original handles put back: %s returns %v, a fresh engine %v", c19FaultKinds[kind], qs[q1], qs[q2], got, oracle[q2]),
						Replay: replay})
					break
				}
			}
			for _, f := range orig {
				_ = f.Close()
			}
		}
	}
	return evals, cases
}

func init() {
	register("C19", "fault_enumeration", func(c *Ctx) {
		scen.FileDir = os.Getenv("VERIF_WORK")
		shim.DeadlockWait = 5 * time.Second
		defer func() { shim.DeadlockWait = 0 }()
		qs := c19Queries()
		// fault-free oracle per query (fresh engines)
		oracle := make([][]string, len(qs))
		for i, q := range qs {
			if q.Kind == "newengine" {
				continue
			}
			e, st, _ := c19Build()
			oracle[i], _ = c19Result(e, q)
			st.Close()
		}
		// truth[q]: every rule of the lists that individually matches q, whatever
		// precedence does with it (an unreadable network rule may let the host
		// rules it used to shadow through: they still truly match)
		truth := make([]map[string]bool, len(qs))
		for i, q := range qs {
			truth[i] = map[string]bool{}
			for _, t := range oracle[i] {
				truth[i][t] = true
			}
			for _, l := range append(append([]scen.ListSpec{}, c19Lists...), c19StringList) {
				for _, line := range strings.Split(l.Text, "\n") {
					r, err := rules.NewRule(line, l.ID)
					if err != nil || r == nil {
						continue
					}
					switch r := r.(type) {
					case *rules.HostRule:
						if q.Kind == "dns" && r.Match(q.Host) {
							truth[i][r.RuleText] = true
						}
					case *rules.NetworkRule:
						if q.Kind == "netall" && r.Match(rules.NewRequest(q.URL, q.Src, q.Type)) {
							truth[i][r.RuleText] = true
						}
					}
				}
			}
		}
		// rules that can never be lost: held by pointer (seq-scan) or string-backed
		alwaysServed := map[string]bool{"/ex[a-z]+le\\.net/": true, "/h[o0]sts\\.test/": true, "||string.test^": true, "0.0.0.0 string-host.test": true}

		var abort atomic.Bool
		var runCase2 func(hist []int, k, kind, k2, kind2 int) (evals int64)
		runCase := func(hist []int, k, kind int) (evals int64) { return runCase2(hist, k, kind, -1, 0) }
		runCase2 = func(hist []int, k, kind, k2, kind2 int) (evals int64) {
			if abort.Load() {
				return 0
			}
			e, st, fls := c19Build()
			defer func() {
				for _, fl := range fls {
					_ = fl.File.Close()
				}
			}()
			desc := func() map[string]any {
				var names []string
				for _, h := range hist {
					names = append(names, qs[h].String())
				}
				d := map[string]any{"history": names, "fault_before_query": k, "fault": c19FaultKinds[kind]}
				if k2 >= 0 {
					d["second_fault_before_query"], d["second_fault"] = k2, c19FaultKinds[kind2]
				}
				return d
			}
			replay := map[string]any{"history": hist, "k": k, "kind": kind, "k2": k2, "kind2": kind2}
			applyFault := func(kind int) {
				switch kind {
				case 0:
					_ = st.Close()
				case 1:
					fls[0].File = closedHandle(scen.PathFor(c19Lists[0].Text))
				case 2:
					fls[1].File = closedHandle(scen.PathFor(c19Lists[1].Text))
				case 3:
					fls[0].File = closedHandle(scen.PathFor(c19Lists[0].Text))
					fls[1].File = closedHandle(scen.PathFor(c19Lists[1].Text))
				case 4:
					for _, fl := range fls {
						f, err := os.Open(scen.PathFor(""))
						if err != nil {
							panic(HarnessError(err.Error()))
						}
						fl.File = f // closed by the deferred loop
					}
				}
			}
			var cachedAtFault map[string]bool
			returnedBefore := map[string]bool{} // every rule a query returned before the fault was materialised
			for i, h := range hist {
				if i == k {
					cachedAtFault = map[string]bool{}
					for _, idx := range filterlist.VerifCacheKeys(st) {
						if t, ok := filterlist.VerifCachedRule(st, idx); ok {
							cachedAtFault[t] = true
						}
					}
					if p := protect(func() { applyFault(kind) }); p != nil {
						if strings.Contains(fmt.Sprint(p), "leaked lock") {
							abort.Store(true)
						}
						c.Run.Violate(ev.Violation{Pred: "no-crash", Sig: map[string]any{"fault": c19FaultKinds[kind]}, What: fmt.Sprintf("injecting the fault panics: %v (%v)", p, desc()), Replay: replay})
						return evals
					}
				}
				if i == k2 {
					if p := protect(func() { applyFault(kind2) }); p != nil {
						if strings.Contains(fmt.Sprint(p), "leaked lock") {
							abort.Store(true)
						}
						c.Run.Violate(ev.Violation{Pred: "no-crash", Sig: map[string]any{"fault": c19FaultKinds[kind], "second_fault": c19FaultKinds[kind2]}, What: fmt.Sprintf("injecting the second fault panics: %v (%v)", p, desc()), Replay: replay})
						return evals
					}
				}
				var got []string
				var lie string
				evals++
				if qs[h].Kind == "newengine" {
					if p := protect(func() { urlfilter.NewNetworkEngine(st); urlfilter.NewDNSEngine(st) }); p != nil {
						c.Run.Violate(ev.Violation{Pred: "no-crash", Sig: map[string]any{"query": "newengine", "fault": c19FaultKinds[kind]},
							What: fmt.Sprintf("building further engines over the storage panics: %v (%v)", p, desc()), Replay: replay})
						return evals
					}
					continue
				}
				if p := protect(func() { got, lie = c19Result(e, qs[h]) }); p != nil {
					if strings.Contains(fmt.Sprint(p), "leaked lock") {
						abort.Store(true) // every later case would wait for the same lock again
					}
					c.Run.Violate(ev.Violation{Pred: "no-crash", Sig: map[string]any{"query": qs[h].String(), "fault": c19FaultKinds[kind]},
						What: fmt.Sprintf("%s panics after the fault: %v (%v)", qs[h], p, desc()), Replay: replay})
					return evals
				}
				if lie != "" {
					c.Run.Violate(ev.Violation{Pred: "returned-rule-truly-matches", Sig: map[string]any{"query": qs[h].String(), "rule": lie},
						What: fmt.Sprintf("%s returned %q which does not match the request (%v)", qs[h], lie, desc()), Replay: replay})
				}
				full := truth[h]
				if i < k {
					for _, t := range got {
						returnedBefore[t] = true
					}
					if !eqStrings(got, oracle[h]) {
						c.Run.Violate(ev.Violation{Pred: "fault-free-answer", Sig: map[string]any{"query": qs[h].String()},
							What: fmt.Sprintf("before any fault %s returned %v, fresh engine %v (%v)", qs[h], got, oracle[h], desc()), Replay: replay})
					}
					continue
				}
				if qs[h].Kind != "engine" {
					for _, t := range got {
						if !full[t] {
							c.Run.Violate(ev.Violation{Pred: "result-subset-of-fault-free", Sig: map[string]any{"query": qs[h].String(), "extra": t},
								What: fmt.Sprintf("after the fault %s returned %q which is not among the rules that match the request (%v)", qs[h], t, desc()), Replay: replay})
						}
					}
					gotSet := map[string]bool{}
					for _, t := range got {
						gotSet[t] = true
					}
					for _, t := range oracle[h] {
						if (cachedAtFault[t] || alwaysServed[t] || returnedBefore[t]) && !gotSet[t] {
							c.Run.Violate(ev.Violation{Pred: "materialised-rules-still-served", Sig: map[string]any{"query": qs[h].String(), "lost": t},
								What: fmt.Sprintf("after the fault %s no longer returns %q although it was in memory (%v)", qs[h], t, desc()), Replay: replay})
						}
					}
				}
			}
			return evals
		}
		if c.Replay != nil {
			if mr, _ := c.Replay["mid_read"].(bool); mr {
				c19MidRead(c)
				return
			}
			if raw, ok := c.Replay["heal"].([]any); ok {
				var only []int
				for _, v := range raw {
					only = append(only, int(v.(float64)))
				}
				c19Heal(c, qs, oracle, only)
				return
			}
			if raw, ok := c.Replay["replaced"].([]any); ok {
				var only []int
				for _, v := range raw {
					only = append(only, int(v.(float64)))
				}
				c19Replaced(c, qs, truth, only)
				return
			}
			if n, ok := c.Replay["large"].(float64); ok {
				c19LargeWorkingSet(c, int(n))
				return
			}
			var hist []int
			for _, v := range c.Replay["history"].([]any) {
				hist = append(hist, int(v.(float64)))
			}
			k2, kind2 := -1, 0
			if v, ok := c.Replay["k2"].(float64); ok {
				k2, kind2 = int(v), int(c.Replay["kind2"].(float64))
			}
			runCase2(hist, int(c.Replay["k"].(float64)), int(c.Replay["kind"].(float64)), k2, kind2)
			return
		}
		n, doubleFaultLen := 3, 2
		if c.Thorough() {
			n, doubleFaultLen = 4, 3
		}
		var hists [][]int
		// the longest histories over the core queries only (the later ones -- rules of
		// many domains, large rules, many candidates, further engines -- need one or two steps)
		nCore := 14
		enum.SequencesUpTo(len(qs), n, func(s []int) bool {
			if len(s) == n {
				for _, q := range s {
					if q >= nCore {
						return true
					}
				}
			}
			if len(s) > 0 {
				hists = append(hists, append([]int{}, s...))
			}
			return true
		})
		// ... and, at that length, every core query asked before and after each of the later ones
		// (a step in between -- further engines, a big rule, many candidates -- must not cost what was in memory)
		if !c.Thorough() || n == 4 {
			for q := 0; q < nCore; q++ {
				for x := nCore; x < len(qs); x++ {
					h := []int{q, x, q}
					if n == 4 {
						h = []int{q, x, q, x}
					}
					hists = append(hists, h)
				}
			}
		}
		var mu sync.Mutex
		var evals, cases int64
		exhaustive := true
		c.parallel(len(hists), func(i int) {
			if c.Expired() || abort.Load() {
				mu.Lock()
				exhaustive = false
				mu.Unlock()
				return
			}
			var e, cs int64
			for k := 0; k <= len(hists[i]); k++ {
				for kind := range c19FaultKinds {
					e += runCase(hists[i], k, kind)
					cs++
					// a second fault at or after the first one (short histories only)
					if len(hists[i]) <= doubleFaultLen {
						for k2 := k; k2 < len(hists[i]); k2++ {
							for kind2 := range c19FaultKinds {
								e += runCase2(hists[i], k, kind, k2, kind2)
								cs++
							}
						}
					}
				}
			}
			mu.Lock()
			evals += e
			cases += cs
			mu.Unlock()
		})
		if abort.Load() {
			// a lock leaked on an error path: every further case would wait for it; what was found is reported
			c.Run.Set("histories", int64(len(hists)))
			c.Run.Set("fault_cases", cases)
			c.Run.Set("evaluations", evals)
			c.Run.Set("distinct_nontrivial", cases)
			c.Run.Set("exhaustive", false)
			return
		}
		var largeEvals int64
		largeSizes := []int{100, 1000, 5000, 20000}
		for _, n := range largeSizes {
			largeEvals += c19LargeWorkingSet(c, n)
		}
		midEvals := c19MidRead(c)
		c.Run.Set("mid_retrieval_fault_evaluations", midEvals)
		repEvals, repCases := c19Replaced(c, qs, truth, nil)
		c.Run.Set("replaced_on_disk_cases", repCases)
		c.Run.Set("replaced_on_disk_evaluations", repEvals)
		cases += repCases
		healEvals, healCases := c19Heal(c, qs, oracle, nil)
		c.Run.Set("transient_fault_cases", healCases)
		c.Run.Set("transient_fault_evaluations", healEvals)
		cases += healCases
		evals += healEvals
		evals += largeEvals + midEvals + repEvals
		c.Run.Set("large_working_set_sizes", fmt.Sprint(largeSizes))
		c.Run.Set("large_working_set_evaluations", largeEvals)
		c.Run.Sample(map[string]any{"history": []string{qs[0].String(), qs[3].String(), qs[0].String()}, "fault_before_query": 1, "fault": c19FaultKinds[0]})
		c.Run.Sample(map[string]any{"history": []string{qs[4].String(), qs[2].String()}, "fault_before_query": 0, "fault": c19FaultKinds[3]})
		c.Run.Set("histories", int64(len(hists)))
		c.Run.Set("fault_cases", cases)
		c.Run.Set("evaluations", evals)
		c.Run.Set("distinct_nontrivial", cases)
		c.Run.Set("rule", fmt.Sprintf("every query history of length 1..%d over %d queries (the longest ones over the first 14) (network/DNS/engine, each hitting a different table or list; two file-backed lists and one string list) x every fault point 0..n x 5 fault kinds (Close, either or both file handles replaced by closed descriptors, both replaced by handles of an empty file), for histories of at most %d queries also followed by every second fault at or after the first; every case is distinct; each query after the fault: no panic, every returned rule truly matches, result subset of the rules that individually match (the fault-free result plus what precedence hid), rules in memory at fault time (cache keys, sequential-table rules, string-backed rules) still served; plus every history of one or two queries x %d ways of replacing the list files on disk (offsets shifted by 1, 2, 7 bytes, files swapped, an exception list of the same layout) x 2 ways of closing the descriptors behind the lists before the last query: nothing of the new files is ever served; plus transient faults: a handle replaced by a closed one (3 kinds) while one query is asked, the original handles put back, then every query equals the fresh-engine answer", n, len(qs), doubleFaultLen, len(c19ReplacementKinds)))
		c.Run.Set("exhaustive", exhaustive)
		c.Run.Assumption("fault kinds are those reachable through the public API (RuleStorage.Close, exported FileRuleList.File); a read error in the middle of a line is injected at the block boundary (hook point file.read-next-chunk); a list file replaced on disk is combined with descriptors closed behind the lists only (with open descriptors the old file stays readable on this platform)")
	})
}
