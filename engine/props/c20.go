package props

import (
	"bytes"
	"compress/gzip"
	"fmt"
	"net/http"
	"strings"
	"sync"

	"github.com/AdguardTeam/urlfilter/proxy"

	"verif/enum"
	"verif/ev"
)

// C20 — proxy HTML injection inserts one tag and preserves every original byte.

const c20Window = 16 * 1024

var c20Markers = []string{"</head", "<link", "<style", "<script"}

func c20Tokens() (toks [][]byte) {
	for _, m := range c20Markers {
		toks = append(toks, []byte(m), []byte(strings.ToUpper(m)), []byte(mixCase(m)))
	}
	for _, s := range []string{"<", "</hea", "<lin", "<scrip", "abc", "er>", "s", ">", "\x1f\x8b", "\x1f\x8b\x08\x00", "\xff\xfe", "\xfe\xff", "\xef\xbb\xbf", "\r\n", "<html>", "\x00", "\x80", "\xc3\xa9", "\xff"} {
		toks = append(toks, []byte(s))
	}
	return toks
}

func mixCase(s string) string {
	b := []byte(s)
	for i := range b {
		if i%2 == 1 && b[i] >= 'a' && b[i] <= 'z' {
			b[i] -= 32
		}
	}
	return string(b)
}

// firstMarker returns the offset of the first marker in the original bytes
// (ASCII case-insensitive) or -1.
func firstMarker(body []byte) int {
	low := make([]byte, len(body)) // ASCII lower-casing only; bytes.ToLower would re-encode invalid UTF-8
	for i, b := range body {
		if b >= 'A' && b <= 'Z' {
			b += 32
		}
		low[i] = b
	}
	best := -1
	for _, m := range c20Markers {
		if i := bytes.Index(low, []byte(m)); i >= 0 && (best == -1 || i < best) {
			best = i
		}
	}
	return best
}

func highBefore(body []byte, i int) int {
	n := 0
	for _, b := range body[:i] {
		if b >= 0x80 {
			n++
		}
	}
	return n
}

func gz(b []byte) []byte {
	var buf bytes.Buffer
	w := gzip.NewWriter(&buf)
	_, _ = w.Write(b)
	_ = w.Close()
	return buf.Bytes()
}

// c20Conf is a server configuration and page URL other than the default one.
type c20Conf struct {
	name string
	conf proxy.Config
	page string
}

func c20Check(c *Ctx, body []byte, useGzip bool, desc map[string]any) {
	c20CheckWith(c, body, useGzip, desc, nil)
}

func c20CheckWith(c *Ctx, body []byte, useGzip bool, desc map[string]any, cf *c20Conf) {
	hdr := http.Header{"Content-Type": {"text/html"}}
	wire := body
	if useGzip {
		hdr.Set("Content-Encoding", "gzip")
		wire = gz(body)
		if len(body) >= 2 && len(body)%3 == 0 {
			// every third length: the same bytes as two concatenated gzip members (valid per RFC 1952)
			h := len(body) / 2
			wire = append(gz(body[:h]), gz(body[h:])...)
		}
		if len(body) >= 2 && len(body)%3 == 1 {
			// every third length: one member with a sync-flush point after the first byte and one further inside
			// (the decompressor hands the body out in short reads that end at these points)
			var buf bytes.Buffer
			w := gzip.NewWriter(&buf)
			p := len(body) / 3
			if p > 300 {
				p = 300
			}
			if p < 1 {
				p = 1
			}
			_, _ = w.Write(body[:1])
			_ = w.Flush()
			_, _ = w.Write(body[1 : 1+p])
			_ = w.Flush()
			_, _ = w.Write(body[1+p:])
			_ = w.Close()
			wire = buf.Bytes()
		}
	}
	var out []byte
	var outHdr http.Header
	var cl int64
	var tag string
	var err error
	sig := map[string]any{"body": desc, "gzip": useGzip}
	if cf != nil {
		sig["configuration"] = cf.name
	}
	bad := func(pred, what string) {
		c.Run.Violate(ev.Violation{Pred: pred, Sig: sig, What: what, Replay: map[string]any{"body_hex": fmt.Sprintf("%x", clipBytes(body)), "body_len": len(body), "desc": desc, "gzip": useGzip}})
	}
	if p := protect(func() {
		if cf == nil {
			out, outHdr, cl, tag, err = proxy.VerifFilterHTML(wire, hdr)
		} else {
			out, outHdr, cl, tag, err = proxy.VerifFilterHTMLWith(cf.conf, cf.page, wire, hdr)
			// the tag is text and the statement does not say in which charset it is written into a body of
			// unknown charset: one byte per character (all are below U+0100 here) and UTF-8 are both "the tag";
			// whichever of the two the output holds is taken
			var tb []byte
			for _, r := range tag {
				if r > 0xFF {
					panic(HarnessError("tag with a character above U+00FF: " + tag))
				}
				tb = append(tb, byte(r))
			}
			if !bytes.Contains(out, []byte(tag)) || bytes.Contains(body, []byte(tag)) {
				tag = string(tb)
			}
		}
	}); p != nil {
		if he, ok := p.(HarnessError); ok {
			panic(he)
		}
		bad("no-crash", fmt.Sprintf("filterHTML panics on %v: %v", desc, p))
		return
	}
	if err != nil {
		bad("no-error", fmt.Sprintf("filterHTML fails on %v: %v", desc, err))
		return
	}
	i := firstMarker(body)
	inject := func() []byte {
		o := append([]byte{}, body[:i]...)
		o = append(o, tag...)
		return append(o, body[i:]...)
	}
	var ok bool
	var expect string
	switch {
	case i >= 0 && i+highBefore(body, i) < c20Window:
		ok = bytes.Equal(out, inject())
		expect = fmt.Sprintf("the tag inserted at offset %d", i)
	case i < 0 || i >= c20Window:
		ok = bytes.Equal(out, body)
		expect = "the body unchanged"
	default:
		ok = bytes.Equal(out, body) || bytes.Equal(out, inject())
		expect = fmt.Sprintf("the body unchanged or the tag at offset %d (ambiguous window band)", i)
	}
	if !ok {
		bad("output-is-body-with-one-tag-at-first-marker", fmt.Sprintf("body %v (len %d, gzip=%v): output (len %d) is not %s; output starts %q", desc, len(body), useGzip, len(out), expect, clipBytes(out)))
		return
	}
	if cl != int64(len(out)) {
		bad("content-length-equals-new-length", fmt.Sprintf("body %v: ContentLength=%d, new body has %d bytes", desc, cl, len(out)))
	}
	if outHdr.Get("Content-Encoding") != "" {
		bad("content-encoding-removed", fmt.Sprintf("body %v: Content-Encoding still %q", desc, outHdr.Get("Content-Encoding")))
	}
	if !bytes.Contains(body, []byte(tag)) && bytes.Count(out, []byte(tag)) > 1 {
		bad("exactly-one-tag", fmt.Sprintf("body %v: the tag occurs %d times", desc, bytes.Count(out, []byte(tag))))
	}
}

// c20LargeBody returns a body of n bytes with a marker at its start.
func c20LargeBody(n int) []byte {
	big := make([]byte, 0, n+2)
	big = append(big, "<html><head></head><body>"...)
	for len(big) < n {
		big = append(big, byte('a'+len(big)%23), byte(0x80+len(big)%120))
	}
	return big[:n]
}

func clipBytes(b []byte) []byte {
	if len(b) > 96 {
		return b[:96]
	}
	return b
}

func init() {
	register("C20", "exploration", func(c *Ctx) {
		toks := c20Tokens()
		if c.Replay != nil {
			var body []byte
			fmt.Sscanf(c.Replay["body_hex"].(string), "%x", &body)
			if int(c.Replay["body_len"].(float64)) != len(body) {
				// long bodies are rebuilt from their description
				d := c.Replay["desc"].(map[string]any)
				if d["kind"] == "ascii-head" {
					var tail []byte
					fmt.Sscanf(d["tail_hex"].(string), "%x", &tail)
					body = []byte(d["marker"].(string))
					for len(body) < int(d["head"].(float64)) {
						body = append(body, "abcdefghij"[len(body)%10])
					}
					body = append(body, tail...)
				}
				if d["kind"] == "large" {
					body = c20LargeBody(int(d["bytes"].(float64)))
				}
				if d["kind"] == "window" {
					body = c20WindowBody(int(d["offset"].(float64)), d["marker"].(string), int(d["high"].(float64)), d["tail"].(string))
				}
			}
			gzp, _ := c.Replay["gzip"].(bool)
			c20Check(c, body, gzp, map[string]any{"replay": true})
			return
		}
		var mu sync.Mutex
		var evals int64
		exhaustive := true
		maxTok := 3
		if c.Thorough() {
			maxTok = 4
		}
		// (i) token sequences
		var seqs [][]int
		enum.SequencesUpTo(len(toks), maxTok, func(s []int) bool {
			seqs = append(seqs, append([]int{}, s...))
			return true
		})
		c.parallel(len(seqs), func(i int) {
			if c.Expired() {
				mu.Lock()
				exhaustive = false
				mu.Unlock()
				return
			}
			var body []byte
			var names []string
			for _, k := range seqs[i] {
				body = append(body, toks[k]...)
				names = append(names, string(toks[k]))
			}
			desc := map[string]any{"kind": "tokens", "tokens": fmt.Sprintf("%q", names)}
			c20Check(c, body, false, desc)
			c20Check(c, body, true, desc)
			mu.Lock()
			evals += 2
			mu.Unlock()
			if i%3001 == 0 {
				c.Run.Sample(map[string]any{"body": fmt.Sprintf("%q", body), "first_marker": firstMarker(body)})
			}
		})
		// (ii) window layer
		type wcase struct {
			off, high    int
			marker, tail string
		}
		var wcases []wcase
		for _, m := range c20Markers {
			for off := c20Window - 9; off <= c20Window+2; off++ {
				for _, high := range []int{0, 1, 7, 100} {
					for _, tail := range []string{">x", "><LINK>"} {
						wcases = append(wcases, wcase{off, high, m, tail})
						wcases = append(wcases, wcase{off, high, strings.ToUpper(m), tail})
					}
				}
			}
		}
		c.parallel(len(wcases), func(i int) {
			w := wcases[i]
			body := c20WindowBody(w.off, w.marker, w.high, w.tail)
			desc := map[string]any{"kind": "window", "offset": w.off, "marker": w.marker, "high": w.high, "tail": w.tail}
			c20Check(c, body, false, desc)
			c20Check(c, body, true, desc)
			mu.Lock()
			evals += 2
			mu.Unlock()
		})
		c.Run.Sample(map[string]any{"window_case": "filler(16380 bytes, 7 of them >= 0x80) + '<script' + '>x'", "expected": "ambiguous band or injection depending on decoded offset"})
		// bodies longer than the window whose first 16 KiB are plain ASCII and whose
		// high bytes come only afterwards (with and without a marker before them):
		// every byte must come back
		for _, headLen := range []int{c20Window - 1, c20Window, c20Window + 1, 3 * c20Window} {
			for _, tail := range []string{"\xc3\xa9", "\xe9", "\xe6\x97\xa5\xe6\x9c\xac", "\xff\xfe<script>", "<\xe9/head>"} {
				for _, marker := range []string{"", "<link rel=x>", "</HEAD>"} {
					body := []byte(marker)
					for len(body) < headLen {
						body = append(body, "abcdefghij"[len(body)%10])
					}
					body = append(body, tail...)
					desc := map[string]any{"kind": "ascii-head", "head": headLen, "tail_hex": fmt.Sprintf("%x", tail), "marker": marker}
					c20Check(c, body, false, desc)
					c20Check(c, body, true, desc)
					evals += 2
				}
			}
		}
		// (iii) byte probes
		for b := 0; b < 256; b++ {
			for _, body := range [][]byte{{byte(b)}, append([]byte{byte(b)}, "<script>"...), append([]byte("</head>"), byte(b)), {byte(b), '<', 'l', 'i', 'n', 'k', byte(b)}} {
				desc := map[string]any{"kind": "byte-probe", "hex": fmt.Sprintf("%x", body)}
				c20Check(c, body, false, desc)
				c20Check(c, body, true, desc)
				evals += 2
			}
		}
		// every single-byte substitution and insertion inside every marker: exactly the
		// ASCII case variants of a marker are markers, nothing else
		var subs [][]byte
		for _, m := range c20Markers {
			for pos := 0; pos < len(m); pos++ {
				for b := 0; b < 256; b++ {
					sub := append([]byte("ab"), m[:pos]...)
					sub = append(sub, byte(b))
					sub = append(sub, m[pos+1:]...)
					subs = append(subs, append(sub, ">x"...))
					if b%8 == 0 || b < 0x30 {
						ins := append([]byte("ab"), m[:pos]...)
						ins = append(ins, byte(b))
						ins = append(ins, m[pos:]...)
						subs = append(subs, append(ins, ">x"...))
					}
				}
			}
		}
		c.parallel(len(subs), func(i int) {
			desc := map[string]any{"kind": "marker-byte-substitution", "hex": fmt.Sprintf("%x", subs[i])}
			c20Check(c, subs[i], false, desc)
			if i%5 == 0 {
				c20Check(c, subs[i], true, desc)
			}
		})
		evals += int64(len(subs) + len(subs)/5)
		c.Run.Set("marker_byte_substitutions", int64(len(subs)))
		// every ordered pair of a small body set, back to back on one goroutine
		hist := [][]byte{[]byte("<html><head><script>x</script></head>"), []byte("plain text, no marker at all"), []byte("<scr"), []byte("abc<LINK rel=x>"), {},
			append(bytes.Repeat([]byte("y"), 300), "<style>"...), bytes.Repeat([]byte("z"), 24), []byte("\xe9\xe9</HEAD>"), append(bytes.Repeat([]byte("w"), 17000), "<link>"...), []byte("<")}
		for i, a := range hist {
			for j, b := range hist {
				for _, g := range []bool{false, true} {
					c20Check(c, a, g, map[string]any{"kind": "history-first", "index": i})
					c20Check(c, b, g, map[string]any{"kind": "history-second", "first": i, "second": j, "hex": fmt.Sprintf("%x", clipBytes(b))})
					evals += 2
				}
			}
		}
		c20Check(c, nil, false, map[string]any{"kind": "empty"})
		// large bodies (1 MiB, just above 8 MiB, just above 16 MiB; thorough: 64 MiB), marker early, plain and gzip:
		// every byte behind the window is still there
		sizes := []int{1<<20 + 1, 8<<20 + 4099, 16<<20 + 1}
		if c.Thorough() {
			sizes = append(sizes, 64<<20+7)
		}
		for _, n := range sizes {
			big := c20LargeBody(n)
			for _, g := range []bool{false, true} {
				c20Check(c, big, g, map[string]any{"kind": "large", "bytes": n})
				evals++
			}
		}
		// other server configurations and page URLs (the tag then holds characters that are not ASCII; the
		// content-script compression switch is none of filterHTML's business): a marker early, at the window edge, none
		confs := []c20Conf{
			{"page on a host name with non-ASCII letters", proxy.Config{InjectionHost: "injections.verif.test"}, "http://b\u00fccher.example/"},
			{"injection host with non-ASCII letters", proxy.Config{InjectionHost: "injections.caf\u00e9.example"}, "http://example.org/"},
			{"CompressContentScript", proxy.Config{InjectionHost: "injections.verif.test", CompressContentScript: true}, "http://example.org/"},
			{"non-ASCII path and query", proxy.Config{InjectionHost: "injections.verif.test"}, "http://example.org/caf\u00e9?q=\u00fc"},
		}
		var confBodies [][]byte
		for _, pre := range []string{"", "<html>", "\xe9\xff\x80<html>\x00", strings.Repeat("a", 16370), strings.Repeat("\xe9", 20) + strings.Repeat("a", 16380)} {
			for _, mk := range []string{"</head>", "<SCRIPT src=x>", "<link>", ""} {
				confBodies = append(confBodies, []byte(pre+mk+"<body>\xfc\xe9</body>"))
			}
		}
		for ci := range confs {
			for bi, b := range confBodies {
				for _, g := range []bool{false, true} {
					c20CheckWith(c, b, g, map[string]any{"kind": "configuration", "body": bi}, &confs[ci])
					evals++
				}
			}
		}
		evals++
		c.Run.Set("token_sequences", int64(len(seqs)))
		c.Run.Set("window_cases", int64(len(wcases)))
		c.Run.Set("evaluations", evals)
		c.Run.Set("distinct_nontrivial", int64(len(seqs)+len(wcases)+1024))
		c.Run.Set("rule", fmt.Sprintf("every body of <=%d tokens over %d tokens (4 markers x 3 letter cases, near-misses, filler, NUL, 0x80, valid UTF-8, 0xFF, CRLF); every marker at offsets 16375..16386 with 0/1/7/100 high bytes in the filler and a second marker in the tail; all 256 byte values alone, before and after a marker; each plain and gzip-encoded (every third length as two gzip members, every third with two sync-flush points: short reads of the decompressed body); all bodies distinct", maxTok, len(toks)))
		c.Run.Set("exhaustive", exhaustive)
		c.Run.Assumption("with bytes >= 0x80 before the marker the 'inspected prefix' is ambiguous between original and transcoded offsets; both outcomes are accepted in that band only")
		c.Run.Assumption("the hook builds a Server with a fixed creation time and injection host; the tag is what buildInjectionCode renders for that session")
	})
}

// c20WindowBody places marker at offset off after a filler containing `high`
// bytes >= 0x80.
func c20WindowBody(off int, marker string, high int, tail string) []byte {
	body := make([]byte, 0, off+len(marker)+len(tail))
	for i := 0; i < off; i++ {
		if i < high {
			body = append(body, 0xE9)
		} else {
			body = append(body, "abcdefghij"[i%10])
		}
	}
	body = append(body, marker...)
	return append(body, tail...)
}
