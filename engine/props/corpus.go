package props

import (
	"bufio"
	"encoding/json"
	"os"
	"path/filepath"
	"strings"
	"sync"

	"github.com/AdguardTeam/urlfilter/rules"
)

// The bundled real-world lists and recorded requests of the repository are a
// finite corpus; the corpus layers enumerate it completely (quick: a stated
// stride).  They complement the small-alphabet searches with real bucket
// populations, histograms and line shapes.

var corpusFiles = []string{"testdata/easylist.txt", "examples/proxy/adguard_russian_filter.txt", "testdata/adguard_sdn_filter.txt", "testdata/hosts"}

var (
	corpusMu    sync.Mutex
	corpusCache = map[string][]string{}
)

// corpusContent returns the content of a bundled file ("" if absent).
func corpusContent(rel string) string {
	b, err := os.ReadFile(filepath.Join(repoRoot(), rel))
	if err != nil {
		return ""
	}
	return string(b)
}

// corpusLines returns the lines of a bundled file.
func corpusLines(rel string) []string {
	corpusMu.Lock()
	defer corpusMu.Unlock()
	if ls, ok := corpusCache[rel]; ok {
		return ls
	}
	var ls []string
	if c := corpusContent(rel); c != "" {
		ls = strings.Split(strings.TrimRight(c, "\n"), "\n")
	}
	corpusCache[rel] = ls
	return ls
}

type corpusRequest struct {
	URL, Frame string
	Type       rules.RequestType
}

// corpusRequests returns the recorded requests of testdata/requests.json.
func corpusRequests() (out []corpusRequest) {
	f, err := os.Open(filepath.Join(repoRoot(), "testdata/requests.json"))
	if err != nil {
		return nil
	}
	defer f.Close()
	types := map[string]rules.RequestType{"document": rules.TypeDocument, "subdocument": rules.TypeSubdocument, "script": rules.TypeScript, "stylesheet": rules.TypeStylesheet,
		"image": rules.TypeImage, "xmlhttprequest": rules.TypeXmlhttprequest, "media": rules.TypeMedia, "font": rules.TypeFont, "websocket": rules.TypeWebsocket, "ping": rules.TypePing, "object": rules.TypeObject}
	sc := bufio.NewScanner(f)
	sc.Buffer(make([]byte, 1<<20), 1<<24)
	for sc.Scan() {
		var r struct {
			FrameURL string `json:"frameUrl"`
			URL      string `json:"url"`
			Cpt      string `json:"cpt"`
		}
		if json.Unmarshal(sc.Bytes(), &r) != nil || r.URL == "" {
			continue
		}
		t, ok := types[r.Cpt]
		if !ok {
			t = rules.TypeOther
		}
		out = append(out, corpusRequest{r.URL, r.FrameURL, t})
	}
	return out
}
