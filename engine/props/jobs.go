package props

import (
	"bytes"
	"encoding/json"
	"fmt"
	"os"
	"os/exec"
	"strconv"
	"sync"
	"syscall"
	"time"

	"verif/ev"
)

// JobResult is what a worker subprocess reports.
type JobResult struct {
	Job        int              `json:"job"`
	Name       string           `json:"name"`
	Counts     map[string]int64 `json:"counts"`
	Extra      map[string]any   `json:"extra,omitempty"`
	Violations []ev.Violation   `json:"violations,omitempty"`
	Samples    []any            `json:"samples,omitempty"`
	Complete   bool             `json:"complete"`
	Err        string           `json:"err,omitempty"`
}

// JobFns maps a property id to its worker function.
var JobFns = map[string]func(c *Ctx, job int) JobResult{}

// workerMain runs inside a worker subprocess.
func workerMain(id, tier string, job int) int {
	// the sandbox has no memory limit; cap the address space of workers
	_ = syscall.Setrlimit(syscall.RLIMIT_AS, &syscall.Rlimit{Cur: 16 << 30, Max: 16 << 30})
	fn, ok := JobFns[id]
	if !ok {
		fmt.Fprintf(os.Stderr, "no worker for %s\n", id)
		return 2
	}
	d := ev.Deadline(tier)
	if s := os.Getenv("VERIF_JOB_DEADLINE"); s != "" {
		if dd, err := time.ParseDuration(s); err == nil {
			d = dd
		}
	}
	c := &Ctx{Run: ev.NewRun(id, tier, "worker"), Tier: tier, Deadline: time.Now().Add(d), Workers: 1}
	res := func() (res JobResult) {
		defer func() {
			if r := recover(); r != nil {
				res = JobResult{Job: job, Err: fmt.Sprintf("worker panic: %v", r)}
			}
		}()
		return fn(c, job)
	}()
	res.Job = job
	b, _ := json.Marshal(res)
	os.Stdout.Write(append(b, '\n'))
	return 0
}

// runJobs runs jobs 0..n-1 in worker subprocesses, at most c.Workers at a
// time, and returns their results in job order.  A worker that dies, times out
// or prints garbage yields a result with Err set (a harness error).
func runJobs(c *Ctx, n int, perJob time.Duration, gomaxprocs int) []JobResult {
	exe, err := os.Executable()
	if err != nil {
		panic(HarnessError(err.Error()))
	}
	out := make([]JobResult, n)
	sem := make(chan struct{}, c.Workers)
	var wg sync.WaitGroup
	for i := 0; i < n; i++ {
		wg.Add(1)
		sem <- struct{}{}
		go func(i int) {
			defer wg.Done()
			defer func() { <-sem }()
			cmd := exec.Command(exe, c.Run.Property, c.Tier)
			cmd.Env = append(os.Environ(), "VERIF_JOB="+strconv.Itoa(i), "GOMAXPROCS="+strconv.Itoa(gomaxprocs),
				"VERIF_JOB_DEADLINE="+perJob.String())
			var stdout, stderr bytes.Buffer
			cmd.Stdout, cmd.Stderr = &stdout, &stderr
			done := make(chan error, 1)
			if err := cmd.Start(); err != nil {
				out[i] = JobResult{Job: i, Err: err.Error()}
				return
			}
			go func() { done <- cmd.Wait() }()
			select {
			case err := <-done:
				if err != nil {
					out[i] = JobResult{Job: i, Err: fmt.Sprintf("worker %d: %v: %s", i, err, tail(stderr.String()))}
					return
				}
			case <-time.After(perJob + 60*time.Second):
				_ = cmd.Process.Kill()
				out[i] = JobResult{Job: i, Err: fmt.Sprintf("worker %d: killed after %v", i, perJob+60*time.Second)}
				return
			}
			var r JobResult
			line := bytes.TrimSpace(stdout.Bytes())
			if idx := bytes.LastIndexByte(line, '\n'); idx >= 0 {
				line = line[idx+1:]
			}
			if err := json.Unmarshal(line, &r); err != nil {
				out[i] = JobResult{Job: i, Err: fmt.Sprintf("worker %d: bad output: %v: %s", i, err, tail(stdout.String()))}
				return
			}
			out[i] = r
		}(i)
	}
	wg.Wait()
	return out
}

func tail(s string) string {
	if len(s) > 2000 {
		return "…" + s[len(s)-2000:]
	}
	return s
}
