// Package props wires alphabets, bounds and oracles for each property.
package props

import (
	"fmt"
	"io"
	"log/slog"
	"net/netip"
	"os"
	"path/filepath"
	"runtime"
	"sort"
	"strconv"
	"strings"
	"sync"
	"sync/atomic"
	"time"

	"github.com/AdguardTeam/urlfilter"
	"github.com/AdguardTeam/urlfilter/filterlist"
	"github.com/AdguardTeam/urlfilter/rules"

	"verif/ev"
)

// Ctx is what a property check receives.
type Ctx struct {
	Run      *ev.Run
	Tier     string
	Replay   map[string]any
	Deadline time.Time
	Workers  int
}

// Thorough reports whether the thorough tier runs.
func (c *Ctx) Thorough() bool { return c.Tier == "thorough" }

// Expired reports whether the internal deadline has passed.
func (c *Ctx) Expired() bool { return time.Now().After(c.Deadline) }

// Prop is a registered property check.
type Prop struct {
	ID    string
	Level string
	Fn    func(c *Ctx)
}

// Registry maps property ids to checks.
var Registry = map[string]Prop{}

func register(id, level string, fn func(c *Ctx)) { Registry[id] = Prop{ID: id, Level: level, Fn: fn} }

func init() {
	slog.SetDefault(slog.New(slog.NewTextHandler(io.Discard, nil)))
}

// Main runs one property and returns the exit code.
func Main(id, tier, replayPath string) int {
	if js := os.Getenv("VERIF_JOB"); js != "" {
		job, _ := strconv.Atoi(js)
		return workerMain(id, tier, job)
	}
	p, ok := Registry[id]
	if !ok {
		fmt.Fprintf(os.Stderr, "unknown property %q\n", id)
		return 2
	}
	run := ev.NewRun(id, tier, p.Level)
	c := &Ctx{Run: run, Tier: tier, Deadline: time.Now().Add(ev.Deadline(tier)), Workers: runtime.NumCPU()}
	if replayPath != "" {
		m, err := ev.LoadReplay(replayPath)
		if err != nil {
			fmt.Fprintln(os.Stderr, "harness error:", err)
			return 2
		}
		c.Replay = m
	}
	code := func() (code int) {
		defer func() {
			if r := recover(); r != nil {
				if ar, ok := r.(AlphabetRejected); ok {
					run.Violate(ev.Violation{Pred: "well-formed-alphabet-rule-is-accepted", Sig: map[string]any{"rule": ar.Text},
						What: fmt.Sprintf("the parser rejects the well-formed rule %q of the check's alphabet: %v", ar.Text, ar.Err), Replay: map[string]any{"alphabet_rule": ar.Text}})
					code = run.Finish()
					fmt.Printf("%s %s: exit=%d wall=%.1fs\n", id, tier, code, run.Elapsed().Seconds())
					return
				}
				if he, ok := r.(HarnessError); ok {
					fmt.Fprintln(os.Stderr, "harness error:", string(he))
					run.Set("harness_error", string(he))
					run.Finish()
					code = 2
					return
				}
				panic(r)
			}
		}()
		if t, ok := c.Replay["alphabet_rule"].(string); ok {
			mustNetRule(t, 1) // panics with AlphabetRejected if the rule is still rejected
			return -1
		}
		p.Fn(c)
		return -1
	}()
	if code >= 0 {
		return code
	}
	if replayPath != "" {
		// a replay never rewrites evidence
		if n := run.NViolations(); n > 0 {
			fmt.Printf("replay: case still violates property %s\n", id)
			return 1
		}
		fmt.Printf("replay: case no longer violates property %s\n", id)
		return 0
	}
	rc := run.Finish()
	fmt.Printf("%s %s: exit=%d wall=%.1fs\n", id, tier, rc, run.Elapsed().Seconds())
	return rc
}

// AlphabetRejected is panicked when a rule of a check's alphabet is rejected by
// the parser.  Every alphabet rule is well-formed and parses on the tree the
// alphabets were written for (the checks are silent there), so a rejection means
// the rule -- and whatever it blocks, allows or rewrites -- is lost: it is
// reported as a violation of the property under check, not as a harness error.
type AlphabetRejected struct {
	Text string
	Err  error
}

// HarnessError is panicked for conditions that are the harness's fault (model
// and implementation disagree, replay divergence).  It maps to exit code 2.
type HarnessError string

// ---------------------------------------------------------------------------
// shared helpers

// parallel runs fn(i) for i in [0,n) on c.Workers goroutines.
func (c *Ctx) parallel(n int, fn func(i int)) {
	var wg sync.WaitGroup
	var mu sync.Mutex
	var firstPanic any
	ch := make(chan int, 64)
	w := c.Workers
	if w > n {
		w = n
	}
	for k := 0; k < w; k++ {
		wg.Add(1)
		go func() {
			defer wg.Done()
			for i := range ch {
				func() {
					defer func() {
						if r := recover(); r != nil {
							mu.Lock()
							if firstPanic == nil {
								firstPanic = r
							}
							mu.Unlock()
						}
					}()
					fn(i)
				}()
			}
		}()
	}
	for i := 0; i < n; i++ {
		ch <- i
	}
	close(ch)
	wg.Wait()
	if firstPanic != nil {
		// re-raise on the caller's goroutine, where Main turns a HarnessError into exit code 2
		panic(firstPanic)
	}
}

// protect runs fn and returns the recovered panic, if any.
func protect(fn func()) (p any) {
	defer func() { p = recover() }()
	fn()
	return nil
}

func mustAddr(s string) netip.Addr { return netip.MustParseAddr(s) }

func mustNetRule(text string, id int) *rules.NetworkRule {
	r, err := rules.NewNetworkRule(text, id)
	if err != nil {
		panic(AlphabetRejected{Text: text, Err: err})
	}
	return r
}

// stringStorage builds a storage from list texts with ids 0..n-1 (id 0 and
// offset 0 make the storage index 0, the value most easily mistaken for "unset").
func stringStorage(lists ...string) *filterlist.RuleStorage {
	var ls []filterlist.RuleList
	for i, t := range lists {
		ls = append(ls, &filterlist.StringRuleList{ID: i, RulesText: t})
	}
	s, err := filterlist.NewRuleStorage(ls)
	if err != nil {
		panic(HarnessError("storage: " + err.Error()))
	}
	return s
}

func netTexts(rs []*rules.NetworkRule) []string {
	out := make([]string, 0, len(rs))
	for _, r := range rs {
		out = append(out, r.RuleText)
	}
	return out
}

func sortedSet(xs []string) []string {
	m := map[string]bool{}
	for _, x := range xs {
		m[x] = true
	}
	out := make([]string, 0, len(m))
	for x := range m {
		out = append(out, x)
	}
	sort.Strings(out)
	return out
}

// moreOftenThan returns a text that occurs more often in got than in want ("" if
// there is none): an engine may return a rule once although the lists hold its
// text twice, but never more often than the lists hold it.
func moreOftenThan(got, want []string) string {
	cnt := map[string]int{}
	for _, w := range want {
		cnt[w]++
	}
	for _, g := range got {
		cnt[g]--
		if cnt[g] < 0 {
			return g
		}
	}
	return ""
}

func eqStrings(a, b []string) bool {
	if len(a) != len(b) {
		return false
	}
	for i := range a {
		if a[i] != b[i] {
			return false
		}
	}
	return true
}

func joinLines(ls []string) string { return strings.Join(ls, "\n") }

var _ = urlfilter.NewEngine

var deploySeq atomic.Int64

// deployStorage builds a storage shaped like a deployment rather than like a
// test: the lines are spread over three lists whose ids are not ascending (9,
// 4, 6): the first half behind a header comment, a list that holds comments
// only, and the rest with no line terminator after its last line.  With file
// set the two lists that hold rules are file-backed.  The second result
// releases the files.  Whatever an engine answers over the plain one-list
// storage it must answer over this one.
func deployStorage(lines []string, file bool) (*filterlist.RuleStorage, func()) {
	h := (len(lines) + 1) / 2
	texts := []string{"! subscription\n! Title: first part\n" + joinLines(lines[:h]) + "\n", "! nothing but comments in this list\n!\n", joinLines(lines[h:])}
	ids := []int{9, 4, 6}
	var ls []filterlist.RuleList
	var paths []string
	for k, t := range texts {
		if file && k != 1 {
			p := filepath.Join(os.Getenv("VERIF_WORK"), fmt.Sprintf("deploy-%d-%d.txt", os.Getpid(), deploySeq.Add(1)))
			if err := os.WriteFile(p, []byte(t), 0o644); err != nil {
				panic(HarnessError(err.Error()))
			}
			paths = append(paths, p)
			fl, err := filterlist.NewFileRuleList(ids[k], p, false)
			if err != nil {
				panic(HarnessError(err.Error()))
			}
			ls = append(ls, fl)
			continue
		}
		ls = append(ls, &filterlist.StringRuleList{ID: ids[k], RulesText: t})
	}
	st, err := filterlist.NewRuleStorage(ls)
	if err != nil {
		panic(HarnessError("storage: " + err.Error()))
	}
	return st, func() {
		_ = st.Close()
		for _, p := range paths {
			_ = os.Remove(p)
		}
	}
}
