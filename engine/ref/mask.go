// Package ref holds the reference models: deliberately boring
// re-implementations of the documented behaviour, written from the property
// statements and the public documentation.
package ref

import (
	"strings"

	"verif/automata"
)

func single(c rune, fold bool) automata.CharSet {
	var s automata.CharSet
	s.Add(c)
	if fold {
		switch {
		case c >= 'a' && c <= 'z':
			s.Add(c - 32)
		case c >= 'A' && c <= 'Z':
			s.Add(c + 32)
		}
	}
	return s
}

// separatorSet is "any character but a letter, a digit, or one of _ - . %"
// (the space is outside the alphabet, see DESIGN §5).
func separatorSet() automata.CharSet {
	var s automata.CharSet
	for c := rune(0x21); c <= 0x7E; c++ {
		switch {
		case c >= 'a' && c <= 'z', c >= 'A' && c <= 'Z', c >= '0' && c <= '9', c == '_', c == '-', c == '.', c == '%':
		default:
			s.Add(c)
		}
	}
	return s
}

func hostSet(upper bool) automata.CharSet {
	var s automata.CharSet
	for c := 'a'; c <= 'z'; c++ {
		s.Add(c)
		if upper {
			s.Add(c - 32)
		}
	}
	for c := '0'; c <= '9'; c++ {
		s.Add(c)
	}
	s.Add('-')
	s.Add('_')
	s.Add('.')
	return s
}

// EffectivePattern applies the documented trailing "/*" -> "^" rewrite.
func EffectivePattern(p string) string {
	if strings.HasSuffix(p, "/*") {
		return p[:len(p)-2] + "^"
	}
	return p
}

// MaskNFA builds the reference automaton of the mask language for the
// (effective) pattern p.  matchCase makes literals case-sensitive.  caseFoldStart
// selects, for the "||" start, whether scheme and sub-domain characters may be
// upper case.
func MaskNFA(p string, matchCase, caseFoldStart bool) *automata.NFA {
	n := &automata.NFA{}
	s0 := n.NewState()
	if p == "" || p == "*" || p == "|" || p == "||" {
		n.Edge(s0, automata.AnyChar, s0)
		n.SetFinal(s0)
		return n
	}
	cur := s0
	rest := p
	switch {
	case strings.HasPrefix(rest, "||"):
		rest = rest[2:]
		// scheme
		afterScheme := n.NewState()
		for _, sch := range []string{"http", "https", "ws", "wss"} {
			c := s0
			for _, ch := range sch + "://" {
				nx := n.NewState()
				n.Edge(c, single(ch, caseFoldStart), nx)
				c = nx
			}
			n.Eps(c, afterScheme)
		}
		// optional sub-domains: hostchar+ '.'
		body := n.NewState()
		sub := n.NewState()
		hs := hostSet(caseFoldStart)
		n.Edge(afterScheme, hs, sub)
		n.Edge(sub, hs, sub)
		n.Edge(sub, single('.', false), body)
		n.Eps(afterScheme, body)
		cur = body
	case strings.HasPrefix(rest, "|"):
		rest = rest[1:]
	default:
		n.Edge(s0, automata.AnyChar, s0)
		b := n.NewState()
		n.Eps(s0, b)
		cur = b
	}
	anchoredEnd := false
	if strings.HasSuffix(rest, "|") {
		anchoredEnd = true
		rest = rest[:len(rest)-1]
	}
	sep := separatorSet()
	for _, ch := range rest {
		nx := n.NewState()
		switch ch {
		case '*':
			n.Edge(cur, automata.AnyChar, cur)
			n.Eps(cur, nx)
		case '^':
			n.Edge(cur, sep, nx)
			n.EpsEnd(cur, nx)
		default:
			n.Edge(cur, single(ch, !matchCase), nx)
		}
		cur = nx
	}
	if !anchoredEnd {
		n.Edge(cur, automata.AnyChar, cur)
	}
	n.SetFinal(cur)
	return n
}
