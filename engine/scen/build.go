package scen

import (
	"fmt"
	"os"
	"path/filepath"
	"sync"

	"github.com/AdguardTeam/urlfilter"
	"github.com/AdguardTeam/urlfilter/filterlist"
)

// ListSpec describes one filter list.
type ListSpec struct {
	ID   int
	Text string
}

// FileDir is where file-backed lists are written (set by the harness; inside
// /verif/.work/<pid>, never /tmp).
var FileDir = ""

var (
	writtenMu sync.Mutex
	written   = map[string]string{}
)

// pathFor writes the text once per process and returns its path.
// PathFor writes the text once per process and returns its path.
func PathFor(text string) string { return pathFor(text) }

func pathFor(text string) string {
	writtenMu.Lock()
	defer writtenMu.Unlock()
	if p, ok := written[text]; ok {
		return p
	}
	dir := FileDir
	if dir == "" {
		dir = os.Getenv("VERIF_WORK")
	}
	if dir == "" {
		panic("scen: no work dir for file-backed lists")
	}
	_ = os.MkdirAll(dir, 0o755)
	p := filepath.Join(dir, fmt.Sprintf("list-%d-%d.txt", os.Getpid(), len(written)))
	if err := os.WriteFile(p, []byte(text), 0o644); err != nil {
		panic(err)
	}
	written[text] = p
	return p
}

// Storage builds a storage over the lists, String- or File-backed.  It also
// returns the file lists so that fault injection can reach their handles.
func Storage(lists []ListSpec, file bool) (*filterlist.RuleStorage, []*filterlist.FileRuleList) {
	var ls []filterlist.RuleList
	var fls []*filterlist.FileRuleList
	for _, l := range lists {
		if file {
			fl, err := filterlist.NewFileRuleList(l.ID, pathFor(l.Text), false)
			if err != nil {
				panic(err)
			}
			ls = append(ls, fl)
			fls = append(fls, fl)
		} else {
			ls = append(ls, &filterlist.StringRuleList{ID: l.ID, RulesText: l.Text})
		}
	}
	s, err := filterlist.NewRuleStorage(ls)
	if err != nil {
		panic(err)
	}
	return s, fls
}

// Build builds all three engines over one shared storage.
func Build(lists []ListSpec, file bool) (*Engines, *filterlist.RuleStorage, []*filterlist.FileRuleList) {
	return BuildFor(lists, file, nil)
}

// BuildFor builds, over one shared storage, the engines that the given
// queries need (all three if qs is nil).
func BuildFor(lists []ListSpec, file bool, qs []Query) (*Engines, *filterlist.RuleStorage, []*filterlist.FileRuleList) {
	s, fls := Storage(lists, file)
	e := &Engines{}
	need := map[string]bool{}
	for _, q := range qs {
		need[q.Kind] = true
	}
	if qs == nil || need["netall"] || need["netmatch"] {
		e.Net = urlfilter.NewNetworkEngine(s)
	}
	if qs == nil || need["dns"] || need["dnsmatch"] {
		e.DNS = urlfilter.NewDNSEngine(s)
	}
	if qs == nil || need["engine"] || need["cosmetic"] {
		e.Eng = urlfilter.NewEngine(s)
	}
	return e, s, fls
}
