package scen

import (
	"github.com/AdguardTeam/urlfilter/rules"
)

// Scenario is one concurrent harness: every thread runs its queries in order.
type Scenario struct {
	Name    string
	Lists   []ListSpec
	Threads [][]Query
	// Warm are run sequentially before the threads start in the warm-cache
	// configuration.
	Warm []Query
	// MaxBound, if not zero, caps the preemption bound for this scenario (wide
	// scenarios are explored with fewer preemptions).
	MaxBound int
	// ThoroughOnly scenarios are left out of the quick tier; they come last in
	// the list so that job indexes of the quick tier are a prefix.
	ThoroughOnly bool
	// QuickBound, if not zero, is the preemption bound of this scenario in the
	// quick tier (the thorough tier uses the common bound).
	QuickBound int
	// CloseAfter: after the threads have finished the storage is closed and every
	// query is asked again (file-backed jobs): what was returned stays served.
	CloseAfter bool
	// ClosedBefore: the storage is closed before the threads start (and before
	// the sequential reference answers are taken): queries on a storage whose
	// lists can no longer be read must be as safe as any other.
	ClosedBefore bool
}

var c14ListA = ListSpec{ID: 1, Text: "! list A\n" +
	"||example.org^\n" +
	"||example.org/ads\n" +
	"/ex[a-z]+le\\.net/\n" +
	"/exa(?!b)ample\\.net/\n" + // parses, does not compile: marked invalid at first use
	"/ad$domain=example.org\n" +
	"/ads$domain=z.org|example.org\n" +
	"/ads$domain=z.org|example.org,badfilter\n" +
	"/firstad\n" +
	"/secondbn\n" +
	"@@||example.org^$generichide\n" +
	"@@||example.org^$genericblock\n" +
	"##.g1\n" +
	"example.org##.s1\n" +
	"example.org#@#.g2\n" +
	"##.g2\n" +
	// a bucket of three rules for one host name and a rule of its parent domain
	// that applies to one of two sibling sub-domains only
	"shop.example.org##.sh1\nshop.example.org##.sh2\nshop.example.org##.sh3\nexample.org,~b.shop.example.org##.par\n" +
	// the last line has no line terminator (the reader's end-of-file path) and is
	// retrieved through its index by the ads.example.com queries
	"||ads.example.com^"}

var c14ListB = ListSpec{ID: 2, Text: "# list B\n" +
	"0.0.0.0 example.org\n" +
	":: example.org\n" +
	"127.0.0.1 hosts.test alias.test\n" +
	"0.0.0.0 dup.test dup.test\n" +
	"127.0.0.2 n0.test n1.test n2.test n3.test n4.test n5.test n6.test n7.test n8.test n9.test\n" + // more names than a small inline set holds
	"||many.test^\n||many.test^$important\n@@||many.test^$dnstype=AAAA\n||many.test^$dnstype=A\n||many.test^$ctag=~tv\n" +
	"||many.test^$client=~nobody\n||many.test^$denyallow=x.test\n||many.test^$dnstype=~TXT\n||many.test^$ctag=~phone\n||many.test^$client=~10.9.9.9\n" + // ten rules match one request
	":: dup.test\n" +
	"||blocked.test^$client=10.0.0.1\n" +
	"||tagged.test^$ctag=pc\n" +
	"||rw.test^$dnsrewrite=1.2.3.4\n" +
	"||rw.test^$dnsrewrite=2.3.4.5\n" +
	"@@||rw.test^$dnsrewrite=1.2.3.4\n" +
	"/h[o0]sts\\.test/\n" +
	"||repeat.test^$client=zoe,client=adam\n||repeat.test^$ctag=pc,ctag=tv,dnstype=A,dnstype=AAAA\n" + // modifiers written twice
	"||v6.test^$dnstype=AAAA"} // likewise: last line, no terminator

func netAll(url, src string, t rules.RequestType) Query {
	return Query{Kind: "netall", URL: url, Src: src, Type: t}
}
func dnsQ(host string, t uint16, client, ip string, tags ...string) Query {
	return Query{Kind: "dns", Host: host, DNSType: t, Client: client, IP: ip, Tags: tags}
}

// C14Scenarios returns the scenarios of property C14.
func C14Scenarios() []Scenario {
	twice := netAll("http://example.org/?u=example.org", "", rules.TypeScript)
	q1 := netAll("http://example.org/", "", rules.TypeScript)
	q2 := netAll("http://ads.example.com/x", "", rules.TypeImage)
	q3 := netAll("http://example.org/ads?u=ads.example.com", "http://example.org/", rules.TypeScript)
	rx := netAll("http://exaample.net/", "", rules.TypeScript)
	both := []ListSpec{c14ListA, c14ListB}
	d1 := dnsQ("example.org", 1, "", "")
	d2 := dnsQ("blocked.test", 1, "laptop", "10.0.0.1")
	d3 := dnsQ("tagged.test", 1, "", "", "pc")
	d3b := dnsQ("tagged.test", 1, "", "", "phone", "tv")
	d4 := dnsQ("v6.test", 28, "", "")
	d5 := dnsQ("blocked.test", 1, "", "")
	d6 := dnsQ("rw.test", 1, "", "")
	fs := Query{Kind: "netmatch", URL: "http://x.test/firstad/secondbn/", Type: rules.TypeScript}
	sf := Query{Kind: "netmatch", URL: "http://x.test/secondbn/firstad/", Type: rules.TypeScript}
	d7 := dnsQ("hosts.test", 1, "", "")
	d8 := dnsQ("dup.test", 1, "", "")
	d9 := dnsQ("n3.test", 1, "", "")
	d10 := dnsQ("n9.test", 1, "", "")
	d11 := dnsQ("many.test", 1, "", "")
	many := netAll("http://many.test/", "", rules.TypeScript)
	eng := Query{Kind: "engine", URL: "http://example.org/ads", Src: "http://example.org/", Type: rules.TypeScript}
	eng2 := Query{Kind: "engine", URL: "http://ads.example.com/x", Src: "http://other.test/page", Type: rules.TypeImage}
	cos := Query{Kind: "cosmetic", Host: "example.org", Option: rules.CosmeticOptionAll}
	cosA := Query{Kind: "cosmetic", Host: "a.shop.example.org", Option: rules.CosmeticOptionAll}
	cosB := Query{Kind: "cosmetic", Host: "b.shop.example.org", Option: rules.CosmeticOptionAll}
	return []Scenario{
		{Name: "S1-same-rule-twice-in-url-2t", Lists: both, Threads: [][]Query{{twice}, {twice}}, Warm: []Query{twice}},
		{Name: "S2-different-uncached-rules-2t", Lists: both, Threads: [][]Query{{q1}, {q2}}, Warm: []Query{q1, q2}, CloseAfter: true},
		{Name: "S2-different-uncached-rules-3t", Lists: both, Threads: [][]Query{{q1}, {q2}, {q3}}, Warm: []Query{q1}},
		{Name: "S3-lazy-regex-compile-2t", Lists: both, Threads: [][]Query{{rx}, {rx}}, Warm: []Query{q1}},
		{Name: "S4-dns-pool-2t", Lists: both, Threads: [][]Query{{d2, d5}, {d3, d1}}, Warm: []Query{d1}, CloseAfter: true},
		{Name: "S4-dns-pool-3t", Lists: both, Threads: [][]Query{{d2, d5}, {d3, d4}, {d6, d7}}, Warm: []Query{d1, d7}, QuickBound: 1},
		{Name: "S4-dns-pool-both-tagged-2t", Lists: both, Threads: [][]Query{{d3, d5}, {d3b, d3}}, Warm: []Query{d1}},
		{Name: "S8-last-lines-of-two-files-2t", Lists: both, Threads: [][]Query{{q2}, {d4}}, Warm: []Query{q1}},
		{Name: "S10-equal-priority-rules-in-both-orders-2t", Lists: both, Threads: [][]Query{{fs}, {sf}}, Warm: []Query{q1}},
		{Name: "S11-many-names-many-rules-2t", Lists: both, Threads: [][]Query{{d9, d11}, {d10, many}}, Warm: []Query{d1}, QuickBound: 1},
		{Name: "S14-modifier-written-twice-2t", Lists: both, Threads: [][]Query{{dnsQ("repeat.test", 1, "adam", ""), dnsQ("repeat.test", 28, "zoe", "", "tv")}, {dnsQ("repeat.test", 1, "adam", ""), dnsQ("repeat.test", 1, "zoe", "", "pc")}}, Warm: []Query{d1}, QuickBound: 1},
		{Name: "S9-host-named-twice-2t", Lists: both, Threads: [][]Query{{d8}, {d8, d7}}, Warm: []Query{d1}},
		{Name: "S5-engine-cosmetic-dns-3t", Lists: both, Threads: [][]Query{{eng}, {cos}, {d1}}, Warm: []Query{eng}},
		{Name: "S12-cosmetic-sibling-hosts-2t", Lists: both, Threads: [][]Query{{cosA, cosB}, {cosB, cosA}}, Warm: []Query{cos}},
		{Name: "S13-closed-storage-2t", Lists: both, Threads: [][]Query{{q2, d4}, {q3, d7}}, ClosedBefore: true},
		{Name: "S7-engine-referrer-2t", Lists: both, Threads: [][]Query{{eng}, {eng2}}, Warm: []Query{eng}},
		{Name: "S7-engine-same-referrer-2t", Lists: both, Threads: [][]Query{{eng}, {eng}}, Warm: []Query{eng}},
		{Name: "S4-dns-pool-4t", Lists: both, Threads: [][]Query{{d2}, {d3}, {d5}, {d7}}, Warm: []Query{d1}, MaxBound: 1},
		{Name: "S6-mixed-3t", Lists: both, Threads: [][]Query{{q3, d7}, {d1, twice}, {rx, q1}}, Warm: []Query{q1, d1}, QuickBound: 1},
		{Name: "S1-same-rule-twice-in-url-3t", Lists: both, Threads: [][]Query{{twice}, {twice}, {twice}}, Warm: []Query{twice}, ThoroughOnly: true},
		{Name: "S3-lazy-regex-compile-3t", Lists: both, Threads: [][]Query{{rx}, {rx}, {q1}}, Warm: []Query{q1}, ThoroughOnly: true},
		{Name: "S1-same-rule-twice-in-url-4t", Lists: both, Threads: [][]Query{{twice}, {twice}, {twice}, {twice}}, Warm: []Query{twice}, MaxBound: 1, ThoroughOnly: true},
	}
}
