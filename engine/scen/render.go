// Package scen holds the query alphabet, answer renderings and concurrent
// scenarios shared by the controlled checks and the free-running race pass.
// It must not import the sync shim.
package scen

import (
	"fmt"
	"net/netip"
	"sort"
	"strings"

	"github.com/AdguardTeam/urlfilter"
	"github.com/AdguardTeam/urlfilter/rules"
)

// Deep, order-preserving renderings of every kind of answer.  They include
// list ids and multiplicity, so "equal rendering" means "same answer".

func RenderNet(r *rules.NetworkRule) string {
	if r == nil {
		return "<nil>"
	}
	return fmt.Sprintf("%d:%s", r.FilterListID, r.RuleText)
}

func RenderNets(rs []*rules.NetworkRule) string {
	var sb strings.Builder
	sb.WriteString("[")
	for i, r := range rs {
		if i > 0 {
			sb.WriteString(" | ")
		}
		sb.WriteString(RenderNet(r))
	}
	sb.WriteString("]")
	return sb.String()
}

func RenderHosts(hs []*rules.HostRule) string {
	var sb strings.Builder
	sb.WriteString("[")
	for i, h := range hs {
		if i > 0 {
			sb.WriteString(" | ")
		}
		fmt.Fprintf(&sb, "%d:%s=>%s%v", h.FilterListID, h.RuleText, h.IP, h.Hostnames)
	}
	sb.WriteString("]")
	return sb.String()
}

func RenderDNSResult(res *urlfilter.DNSResult, matched bool) string {
	if res == nil {
		return fmt.Sprintf("nil matched=%v", matched)
	}
	return fmt.Sprintf("matched=%v rule=%s v4=%s v6=%s all=%s", matched, RenderNet(res.NetworkRule),
		RenderHosts(res.HostRulesV4), RenderHosts(res.HostRulesV6), RenderNets(res.NetworkRules))
}

func RenderMatchingResult(m *rules.MatchingResult) string {
	if m == nil {
		return "nil"
	}
	return fmt.Sprintf("basic=%s doc=%s stealth=%s csp=%s cookie=%s replace=%s", RenderNet(m.BasicRule), RenderNet(m.DocumentRule),
		RenderNet(m.StealthRule), RenderNets(m.CspRules), RenderNets(m.CookieRules), RenderNets(m.ReplaceRules))
}

func RenderCosmetic(c urlfilter.CosmeticResult) string {
	return fmt.Sprintf("eh{g=%q s=%q ge=%q se=%q} css{g=%q s=%q} js{g=%q s=%q}",
		c.ElementHiding.Generic, c.ElementHiding.Specific, c.ElementHiding.GenericExtCSS, c.ElementHiding.SpecificExtCSS,
		c.CSS.Generic, c.CSS.Specific, c.JS.Generic, c.JS.Specific)
}

// Query is one engine query of the request alphabet shared by C13/C14/C19.
type Query struct {
	Kind string            `json:"kind"` // netall | netmatch | engine | cosmetic | dns
	URL  string            `json:"url,omitempty"`
	Src  string            `json:"src,omitempty"`
	Type rules.RequestType `json:"type,omitempty"`

	Host    string   `json:"host,omitempty"`
	DNSType uint16   `json:"dnstype,omitempty"`
	Client  string   `json:"client,omitempty"`
	IP      string   `json:"ip,omitempty"`
	Tags    []string `json:"tags,omitempty"`

	Option rules.CosmeticOption `json:"option,omitempty"`
}

func (q Query) String() string {
	switch q.Kind {
	case "dns":
		return fmt.Sprintf("dns(%s type=%d client=%q ip=%s tags=%v)", q.Host, q.DNSType, q.Client, q.IP, q.Tags)
	case "dnsmatch":
		return fmt.Sprintf("DNSEngine.Match(%s)", q.Host)
	case "cosmetic":
		return fmt.Sprintf("cosmetic(%s opt=%d)", q.Host, q.Option)
	default:
		return fmt.Sprintf("%s(%s src=%s type=%d)", q.Kind, q.URL, q.Src, q.Type)
	}
}

func (q Query) DNSRequest() *urlfilter.DNSRequest {
	r := &urlfilter.DNSRequest{Hostname: q.Host, DNSType: q.DNSType, ClientName: q.Client}
	if q.IP != "" {
		r.ClientIP = netip.MustParseAddr(q.IP)
	}
	if q.Tags != nil {
		t := append([]string{}, q.Tags...)
		sort.Strings(t)
		r.SortedClientTags = t
	}
	return r
}

// Engines bundles the engines built over one storage.
type Engines struct {
	Net *urlfilter.NetworkEngine
	DNS *urlfilter.DNSEngine
	Eng *urlfilter.Engine
}

// Answer runs q and renders the result.
func (e *Engines) Answer(q Query) string {
	switch q.Kind {
	case "netall":
		return RenderNets(e.Net.MatchAll(rules.NewRequest(q.URL, q.Src, q.Type)))
	case "netmatch":
		r, ok := e.Net.Match(rules.NewRequest(q.URL, q.Src, q.Type))
		return fmt.Sprintf("%v %s", ok, RenderNet(r))
	case "engine":
		return RenderMatchingResult(e.Eng.MatchRequest(rules.NewRequest(q.URL, q.Src, q.Type)))
	case "cosmetic":
		return RenderCosmetic(e.Eng.GetCosmeticResult(q.Host, q.Option))
	case "dns":
		res, ok := e.DNS.MatchRequest(q.DNSRequest())
		return RenderDNSResult(res, ok) + " rewrites=" + RenderNets(res.DNSRewrites())
	case "dnsmatch":
		// the Match(hostname) convenience wrapper
		res, ok := e.DNS.Match(q.Host)
		return RenderDNSResult(res, ok) + " rewrites=" + RenderNets(res.DNSRewrites())
	}
	panic("unknown query kind " + q.Kind)
}
