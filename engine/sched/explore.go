// Package sched is the schedule explorer of E1: a preemption-bounded DFS over
// the decision points recorded by the controlled scheduler in verifshim.
package sched

import (
	"fmt"
	"time"

	shim "github.com/AdguardTeam/urlfilter/verifshim"
)

// Exec is one completed controlled execution.
type Exec struct {
	S       *shim.Sched
	Choices []int
}

// Stats summarises an exploration.
type Stats struct {
	Executions int64
	Decisions  int64 // decision points visited over all executions (transitions)
	MaxPoints  int
	Bound      int
	Complete   bool // false if a cap or deadline stopped the search
	ByPreempt  map[int]int64
}

// RunFn builds a fresh instance of the scenario on s (registering threads),
// and returns a function to call after s.Run() has returned.
type RunFn func(s *shim.Sched) (after func())

// RunOne executes one schedule: the choice prefix is replayed, every later
// decision takes alternative 0.
func RunOne(run RunFn, prefix []int) *Exec {
	s := shim.NewSched()
	s.Choose = func(i int, en []int) int {
		if i < len(prefix) {
			return prefix[i]
		}
		return 0
	}
	after := run(s)
	s.Run()
	if after != nil {
		after()
	}
	ch := make([]int, len(s.Points))
	for i, p := range s.Points {
		ch[i] = p.Chosen
	}
	return &Exec{S: s, Choices: ch}
}

// DivergenceError is returned (as panic value) when replaying a prefix does
// not reproduce the decision points of the parent execution.
type DivergenceError string

// Explore runs every schedule of the scenario with at most bound preemptions.
// onExec is called for each execution; returning false stops the search.
func Explore(run RunFn, bound int, deadline time.Time, maxExecs int64, onExec func(x *Exec) bool) Stats {
	st := Stats{Bound: bound, Complete: true, ByPreempt: map[int]int64{}}
	stop := false
	var explore func(prefix []int, parent *Exec)
	explore = func(prefix []int, parent *Exec) {
		if stop {
			return
		}
		if (maxExecs > 0 && st.Executions >= maxExecs) || time.Now().After(deadline) {
			st.Complete = false
			stop = true
			return
		}
		x := RunOne(run, prefix)
		if x.S.BadChoice {
			panic(DivergenceError(fmt.Sprintf("choice out of range while replaying prefix %v", prefix)))
		}
		if parent != nil {
			// every decision of the replayed prefix must look exactly as in the parent
			for i := 0; i < len(prefix)-1 && i < len(x.S.Points); i++ {
				if !sameInts(x.S.Points[i].Enabled, parent.S.Points[i].Enabled) {
					panic(DivergenceError(fmt.Sprintf("divergence at decision %d replaying %v: %v vs %v", i, prefix, x.S.Points[i].Enabled, parent.S.Points[i].Enabled)))
				}
			}
			if len(x.S.Points) < len(prefix) {
				panic(DivergenceError(fmt.Sprintf("execution shorter (%d) than its prefix %v", len(x.S.Points), prefix)))
			}
		}
		st.Executions++
		st.Decisions += int64(len(x.S.Points) - len(prefix) + 1)
		if len(x.S.Points) > st.MaxPoints {
			st.MaxPoints = len(x.S.Points)
		}
		st.ByPreempt[preemptions(x.S.Points, len(x.S.Points))]++
		if !onExec(x) {
			stop = true
			return
		}
		for i := len(prefix); i < len(x.S.Points); i++ {
			p := x.S.Points[i]
			cost := preemptions(x.S.Points, i)
			if p.RunningEnabled {
				cost++
			}
			if cost > bound {
				continue
			}
			for alt := 1; alt < len(p.Enabled); alt++ {
				np := make([]int, i+1)
				copy(np, x.Choices[:i])
				np[i] = alt
				explore(np, x)
				if stop {
					return
				}
			}
		}
	}
	explore(nil, nil)
	return st
}

func preemptions(ps []shim.PointRec, upto int) int {
	n := 0
	for j := 0; j < upto; j++ {
		if ps[j].RunningEnabled && ps[j].Chosen != 0 {
			n++
		}
	}
	return n
}

func sameInts(a, b []int) bool {
	if len(a) != len(b) {
		return false
	}
	for i := range a {
		if a[i] != b[i] {
			return false
		}
	}
	return true
}
