package verifshim

import (
	"fmt"
	"runtime/debug"
)

// OpKind enumerates the operations that are scheduling points.
type OpKind int

// Operation kinds.
const (
	OpStart OpKind = iota
	OpLock
	OpUnlock
	OpWLock
	OpWUnlock
	OpRLock
	OpRUnlock
	OpPoolGet
	OpPoolPut
	OpYield
)

var opNames = [...]string{"start", "lock", "unlock", "wlock", "wunlock", "rlock", "runlock", "poolget", "poolput", "yield"}

func (k OpKind) String() string { return opNames[k] }

// Op is a pending operation of a parked thread.
type Op struct {
	Kind OpKind
	Mu   *Mutex
	RW   *RWMutex
	Name string
}

func (o Op) enabled() bool {
	switch o.Kind {
	case OpLock:
		return !o.Mu.locked
	case OpWLock:
		return !o.RW.wlocked && o.RW.readers == 0
	case OpRLock:
		return !o.RW.wlocked
	default:
		return true
	}
}

// Thread is one controlled goroutine.
type Thread struct {
	ID       int
	resume   chan struct{}
	pending  Op
	done     bool
	vc       []int
	Panic    any
	PanicStk string
}

func (t *Thread) acquire(vc []int) { t.vc = join(t.vc, vc) }

func (t *Thread) release() []int {
	c := make([]int, len(t.vc))
	copy(c, t.vc)
	t.vc[t.ID]++
	return c
}

// PointRec records one scheduling decision.
type PointRec struct {
	Enabled        []int // thread ids in canonical order: the running thread first if still enabled, then ascending
	RunningEnabled bool  // Enabled[0] is the thread that ran last and could continue
	Chosen         int   // index into Enabled
	Op             string
}

// Race describes a happens-before race on an annotated location.
type Race struct {
	Field            string
	Obj              string
	PrevTID, CurTID  int
	PrevWrite, Write bool
}

func (r Race) String() string {
	return fmt.Sprintf("race on %s.%s: thread %d (write=%v) vs thread %d (write=%v)", r.Obj, r.Field, r.PrevTID, r.PrevWrite, r.CurTID, r.Write)
}

type locKey struct {
	obj   any
	field string
}

type locState struct {
	wTID, wClk int
	hasW       bool
	reads      map[int]int
}

// Sched is one controlled execution.
type Sched struct {
	threads []*Thread
	cur     *Thread
	parked  chan struct{}
	Points  []PointRec
	Races   []Race
	locs    map[locKey]*locState
	atoms   map[any][]int // what the stores to each sync/atomic variable released
	Steps   int

	// Choose returns the index of the enabled thread to run at decision i.
	Choose func(i int, enabled []int) int

	// Horizon bounds the number of steps (livelock guard).
	Horizon int

	// Trace records every step as thread<<8|kind.
	Trace []uint16

	Deadlock  bool
	Livelock  bool
	BadChoice bool
}

var active *Sched

// NewSched creates an execution controller.
func NewSched() *Sched {
	return &Sched{parked: make(chan struct{}), locs: map[locKey]*locState{}, Horizon: 10000}
}

// Go registers a thread body.  Bodies start running only inside Run.
func (s *Sched) Go(body func()) *Thread {
	t := &Thread{ID: len(s.threads), resume: make(chan struct{})}
	s.threads = append(s.threads, t)
	go func() {
		<-t.resume
		defer func() {
			if p := recover(); p != nil {
				t.Panic = p
				t.PanicStk = string(debug.Stack())
			}
			t.done = true
			s.parked <- struct{}{}
		}()
		body()
	}()
	return t
}

// Threads returns the registered threads.
func (s *Sched) Threads() []*Thread { return s.threads }

// point parks the calling (current) thread with a pending operation and
// returns once the scheduler has chosen it; the caller then performs the
// operation, atomically with respect to all other threads.
func (s *Sched) point(op Op) *Thread {
	t := s.cur
	t.pending = op
	s.parked <- struct{}{}
	<-t.resume
	return t
}

// Yield is a pure scheduling point.
func Yield(name string) {
	if s := active; s != nil {
		s.point(Op{Kind: OpYield, Name: name})
	}
}

// AtomicOp is the scheduling point and the happens-before effect of one
// sync/atomic operation on the variable identified by key (see vatomic).
func AtomicOp(key any, name string, write bool) {
	s := active
	if s == nil {
		return
	}
	t := s.point(Op{Kind: OpYield, Name: "atomic." + name})
	if s.atoms == nil {
		s.atoms = map[any][]int{}
	}
	t.acquire(s.atoms[key])
	if write {
		s.atoms[key] = t.release()
	}
}

// Access reports a read or write of an annotated shared location to the
// happens-before monitor.
func Access(obj any, field string, write bool) {
	s := active
	if s == nil {
		return
	}
	t := s.cur
	k := locKey{obj, field}
	l := s.locs[k]
	if l == nil {
		l = &locState{reads: map[int]int{}}
		s.locs[k] = l
	}
	if l.hasW && l.wTID != t.ID && l.wClk > t.vcAt(l.wTID) {
		s.Races = append(s.Races, Race{Field: field, Obj: fmt.Sprintf("%T", obj), PrevTID: l.wTID, CurTID: t.ID, PrevWrite: true, Write: write})
	}
	if write {
		for u, c := range l.reads {
			if u != t.ID && c > t.vcAt(u) {
				s.Races = append(s.Races, Race{Field: field, Obj: fmt.Sprintf("%T", obj), PrevTID: u, CurTID: t.ID, PrevWrite: false, Write: true})
			}
		}
		l.hasW, l.wTID, l.wClk = true, t.ID, t.vc[t.ID]
		l.reads = map[int]int{}
	} else {
		l.reads[t.ID] = t.vc[t.ID]
	}
}

func (t *Thread) vcAt(i int) int {
	if i < len(t.vc) {
		return t.vc[i]
	}
	return 0
}

// Run executes all registered threads to completion under the control of
// s.Choose.  It must be called from the goroutine that created s; no shim
// object may be in use by other goroutines meanwhile.
func (s *Sched) Run() {
	n := len(s.threads)
	for _, t := range s.threads {
		t.vc = make([]int, n)
		t.vc[t.ID] = 1
		t.pending = Op{Kind: OpStart}
	}
	active = s
	defer func() { active = nil }()

	last := -1
	for {
		var en []int
		alive := 0
		runningEnabled := false
		if last >= 0 && !s.threads[last].done && s.threads[last].pending.enabled() {
			en = append(en, last)
			runningEnabled = true
		}
		for _, t := range s.threads {
			if t.done {
				continue
			}
			alive++
			if t.ID != last && t.pending.enabled() {
				en = append(en, t.ID)
			}
		}
		if alive == 0 {
			return
		}
		if len(en) == 0 {
			s.Deadlock = true
			return
		}
		s.Steps++
		if s.Steps > s.Horizon {
			s.Livelock = true
			return
		}
		c := 0
		if len(en) > 1 {
			c = s.Choose(len(s.Points), en)
			if c < 0 || c >= len(en) {
				s.BadChoice = true
				return
			}
			s.Points = append(s.Points, PointRec{Enabled: en, RunningEnabled: runningEnabled, Chosen: c, Op: s.threads[en[c]].pending.Kind.String() + ":" + s.threads[en[c]].pending.Name})
		}
		t := s.threads[en[c]]
		s.Trace = append(s.Trace, uint16(t.ID)<<8|uint16(t.pending.Kind))
		last = t.ID
		s.cur = t
		t.resume <- struct{}{}
		<-s.parked
	}
}
