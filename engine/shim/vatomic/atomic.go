// Package vatomic replaces "sync/atomic" in the files of the repository that
// use it (through `go build -overlay`, see cmd/mkoverlay).
//
// Without an attached scheduler every operation is the real one.  With a
// scheduler attached every operation is a scheduling point of the controlled
// execution and feeds the happens-before monitor the way the Go memory model
// defines it: an atomic operation that observes the effect of another one is
// synchronised after it (a load acquires what earlier stores and
// read-modify-write operations on the same variable released; a store or
// read-modify-write acquires and releases).
package vatomic

import (
	"sync/atomic"
	"unsafe"

	shim "github.com/AdguardTeam/urlfilter/verifshim"
)

func rd(p unsafe.Pointer, name string) { shim.AtomicOp(p, name, false) }
func wr(p unsafe.Pointer, name string) { shim.AtomicOp(p, name, true) }

// Int32 mirrors atomic.Int32.
type Int32 struct{ v atomic.Int32 }

func (x *Int32) Load() int32        { rd(unsafe.Pointer(x), "load"); return x.v.Load() }
func (x *Int32) Store(v int32)      { wr(unsafe.Pointer(x), "store"); x.v.Store(v) }
func (x *Int32) Swap(v int32) int32 { wr(unsafe.Pointer(x), "swap"); return x.v.Swap(v) }
func (x *Int32) CompareAndSwap(o, n int32) bool {
	wr(unsafe.Pointer(x), "cas")
	return x.v.CompareAndSwap(o, n)
}
func (x *Int32) Add(d int32) int32 { wr(unsafe.Pointer(x), "add"); return x.v.Add(d) }
func (x *Int32) And(m int32) int32 { wr(unsafe.Pointer(x), "and"); return x.v.And(m) }
func (x *Int32) Or(m int32) int32  { wr(unsafe.Pointer(x), "or"); return x.v.Or(m) }

func LoadInt32(a *int32) int32          { rd(unsafe.Pointer(a), "load"); return atomic.LoadInt32(a) }
func StoreInt32(a *int32, v int32)      { wr(unsafe.Pointer(a), "store"); atomic.StoreInt32(a, v) }
func SwapInt32(a *int32, v int32) int32 { wr(unsafe.Pointer(a), "swap"); return atomic.SwapInt32(a, v) }
func CompareAndSwapInt32(a *int32, o, n int32) bool {
	wr(unsafe.Pointer(a), "cas")
	return atomic.CompareAndSwapInt32(a, o, n)
}
func AddInt32(a *int32, d int32) int32 { wr(unsafe.Pointer(a), "add"); return atomic.AddInt32(a, d) }
func AndInt32(a *int32, m int32) int32 { wr(unsafe.Pointer(a), "and"); return atomic.AndInt32(a, m) }
func OrInt32(a *int32, m int32) int32  { wr(unsafe.Pointer(a), "or"); return atomic.OrInt32(a, m) }

// Int64 mirrors atomic.Int64.
type Int64 struct{ v atomic.Int64 }

func (x *Int64) Load() int64        { rd(unsafe.Pointer(x), "load"); return x.v.Load() }
func (x *Int64) Store(v int64)      { wr(unsafe.Pointer(x), "store"); x.v.Store(v) }
func (x *Int64) Swap(v int64) int64 { wr(unsafe.Pointer(x), "swap"); return x.v.Swap(v) }
func (x *Int64) CompareAndSwap(o, n int64) bool {
	wr(unsafe.Pointer(x), "cas")
	return x.v.CompareAndSwap(o, n)
}
func (x *Int64) Add(d int64) int64 { wr(unsafe.Pointer(x), "add"); return x.v.Add(d) }
func (x *Int64) And(m int64) int64 { wr(unsafe.Pointer(x), "and"); return x.v.And(m) }
func (x *Int64) Or(m int64) int64  { wr(unsafe.Pointer(x), "or"); return x.v.Or(m) }

func LoadInt64(a *int64) int64          { rd(unsafe.Pointer(a), "load"); return atomic.LoadInt64(a) }
func StoreInt64(a *int64, v int64)      { wr(unsafe.Pointer(a), "store"); atomic.StoreInt64(a, v) }
func SwapInt64(a *int64, v int64) int64 { wr(unsafe.Pointer(a), "swap"); return atomic.SwapInt64(a, v) }
func CompareAndSwapInt64(a *int64, o, n int64) bool {
	wr(unsafe.Pointer(a), "cas")
	return atomic.CompareAndSwapInt64(a, o, n)
}
func AddInt64(a *int64, d int64) int64 { wr(unsafe.Pointer(a), "add"); return atomic.AddInt64(a, d) }
func AndInt64(a *int64, m int64) int64 { wr(unsafe.Pointer(a), "and"); return atomic.AndInt64(a, m) }
func OrInt64(a *int64, m int64) int64  { wr(unsafe.Pointer(a), "or"); return atomic.OrInt64(a, m) }

// Uint32 mirrors atomic.Uint32.
type Uint32 struct{ v atomic.Uint32 }

func (x *Uint32) Load() uint32         { rd(unsafe.Pointer(x), "load"); return x.v.Load() }
func (x *Uint32) Store(v uint32)       { wr(unsafe.Pointer(x), "store"); x.v.Store(v) }
func (x *Uint32) Swap(v uint32) uint32 { wr(unsafe.Pointer(x), "swap"); return x.v.Swap(v) }
func (x *Uint32) CompareAndSwap(o, n uint32) bool {
	wr(unsafe.Pointer(x), "cas")
	return x.v.CompareAndSwap(o, n)
}
func (x *Uint32) Add(d uint32) uint32 { wr(unsafe.Pointer(x), "add"); return x.v.Add(d) }
func (x *Uint32) And(m uint32) uint32 { wr(unsafe.Pointer(x), "and"); return x.v.And(m) }
func (x *Uint32) Or(m uint32) uint32  { wr(unsafe.Pointer(x), "or"); return x.v.Or(m) }

func LoadUint32(a *uint32) uint32     { rd(unsafe.Pointer(a), "load"); return atomic.LoadUint32(a) }
func StoreUint32(a *uint32, v uint32) { wr(unsafe.Pointer(a), "store"); atomic.StoreUint32(a, v) }
func SwapUint32(a *uint32, v uint32) uint32 {
	wr(unsafe.Pointer(a), "swap")
	return atomic.SwapUint32(a, v)
}
func CompareAndSwapUint32(a *uint32, o, n uint32) bool {
	wr(unsafe.Pointer(a), "cas")
	return atomic.CompareAndSwapUint32(a, o, n)
}
func AddUint32(a *uint32, d uint32) uint32 {
	wr(unsafe.Pointer(a), "add")
	return atomic.AddUint32(a, d)
}
func AndUint32(a *uint32, m uint32) uint32 {
	wr(unsafe.Pointer(a), "and")
	return atomic.AndUint32(a, m)
}
func OrUint32(a *uint32, m uint32) uint32 { wr(unsafe.Pointer(a), "or"); return atomic.OrUint32(a, m) }

// Uint64 mirrors atomic.Uint64.
type Uint64 struct{ v atomic.Uint64 }

func (x *Uint64) Load() uint64         { rd(unsafe.Pointer(x), "load"); return x.v.Load() }
func (x *Uint64) Store(v uint64)       { wr(unsafe.Pointer(x), "store"); x.v.Store(v) }
func (x *Uint64) Swap(v uint64) uint64 { wr(unsafe.Pointer(x), "swap"); return x.v.Swap(v) }
func (x *Uint64) CompareAndSwap(o, n uint64) bool {
	wr(unsafe.Pointer(x), "cas")
	return x.v.CompareAndSwap(o, n)
}
func (x *Uint64) Add(d uint64) uint64 { wr(unsafe.Pointer(x), "add"); return x.v.Add(d) }
func (x *Uint64) And(m uint64) uint64 { wr(unsafe.Pointer(x), "and"); return x.v.And(m) }
func (x *Uint64) Or(m uint64) uint64  { wr(unsafe.Pointer(x), "or"); return x.v.Or(m) }

func LoadUint64(a *uint64) uint64     { rd(unsafe.Pointer(a), "load"); return atomic.LoadUint64(a) }
func StoreUint64(a *uint64, v uint64) { wr(unsafe.Pointer(a), "store"); atomic.StoreUint64(a, v) }
func SwapUint64(a *uint64, v uint64) uint64 {
	wr(unsafe.Pointer(a), "swap")
	return atomic.SwapUint64(a, v)
}
func CompareAndSwapUint64(a *uint64, o, n uint64) bool {
	wr(unsafe.Pointer(a), "cas")
	return atomic.CompareAndSwapUint64(a, o, n)
}
func AddUint64(a *uint64, d uint64) uint64 {
	wr(unsafe.Pointer(a), "add")
	return atomic.AddUint64(a, d)
}
func AndUint64(a *uint64, m uint64) uint64 {
	wr(unsafe.Pointer(a), "and")
	return atomic.AndUint64(a, m)
}
func OrUint64(a *uint64, m uint64) uint64 { wr(unsafe.Pointer(a), "or"); return atomic.OrUint64(a, m) }

// Uintptr mirrors atomic.Uintptr.
type Uintptr struct{ v atomic.Uintptr }

func (x *Uintptr) Load() uintptr          { rd(unsafe.Pointer(x), "load"); return x.v.Load() }
func (x *Uintptr) Store(v uintptr)        { wr(unsafe.Pointer(x), "store"); x.v.Store(v) }
func (x *Uintptr) Swap(v uintptr) uintptr { wr(unsafe.Pointer(x), "swap"); return x.v.Swap(v) }
func (x *Uintptr) CompareAndSwap(o, n uintptr) bool {
	wr(unsafe.Pointer(x), "cas")
	return x.v.CompareAndSwap(o, n)
}
func (x *Uintptr) Add(d uintptr) uintptr { wr(unsafe.Pointer(x), "add"); return x.v.Add(d) }
func (x *Uintptr) And(m uintptr) uintptr { wr(unsafe.Pointer(x), "and"); return x.v.And(m) }
func (x *Uintptr) Or(m uintptr) uintptr  { wr(unsafe.Pointer(x), "or"); return x.v.Or(m) }

func LoadUintptr(a *uintptr) uintptr     { rd(unsafe.Pointer(a), "load"); return atomic.LoadUintptr(a) }
func StoreUintptr(a *uintptr, v uintptr) { wr(unsafe.Pointer(a), "store"); atomic.StoreUintptr(a, v) }
func SwapUintptr(a *uintptr, v uintptr) uintptr {
	wr(unsafe.Pointer(a), "swap")
	return atomic.SwapUintptr(a, v)
}
func CompareAndSwapUintptr(a *uintptr, o, n uintptr) bool {
	wr(unsafe.Pointer(a), "cas")
	return atomic.CompareAndSwapUintptr(a, o, n)
}
func AddUintptr(a *uintptr, d uintptr) uintptr {
	wr(unsafe.Pointer(a), "add")
	return atomic.AddUintptr(a, d)
}
func AndUintptr(a *uintptr, m uintptr) uintptr {
	wr(unsafe.Pointer(a), "and")
	return atomic.AndUintptr(a, m)
}
func OrUintptr(a *uintptr, m uintptr) uintptr {
	wr(unsafe.Pointer(a), "or")
	return atomic.OrUintptr(a, m)
}

// Bool mirrors atomic.Bool.
type Bool struct{ v atomic.Bool }

func (x *Bool) Load() bool       { rd(unsafe.Pointer(x), "load"); return x.v.Load() }
func (x *Bool) Store(v bool)     { wr(unsafe.Pointer(x), "store"); x.v.Store(v) }
func (x *Bool) Swap(v bool) bool { wr(unsafe.Pointer(x), "swap"); return x.v.Swap(v) }
func (x *Bool) CompareAndSwap(o, n bool) bool {
	wr(unsafe.Pointer(x), "cas")
	return x.v.CompareAndSwap(o, n)
}

// Pointer mirrors atomic.Pointer.
type Pointer[T any] struct{ v atomic.Pointer[T] }

func (x *Pointer[T]) Load() *T     { rd(unsafe.Pointer(x), "load"); return x.v.Load() }
func (x *Pointer[T]) Store(p *T)   { wr(unsafe.Pointer(x), "store"); x.v.Store(p) }
func (x *Pointer[T]) Swap(p *T) *T { wr(unsafe.Pointer(x), "swap"); return x.v.Swap(p) }
func (x *Pointer[T]) CompareAndSwap(o, n *T) bool {
	wr(unsafe.Pointer(x), "cas")
	return x.v.CompareAndSwap(o, n)
}

// Value mirrors atomic.Value.
type Value struct{ v atomic.Value }

func (x *Value) Load() any      { rd(unsafe.Pointer(x), "load"); return x.v.Load() }
func (x *Value) Store(v any)    { wr(unsafe.Pointer(x), "store"); x.v.Store(v) }
func (x *Value) Swap(v any) any { wr(unsafe.Pointer(x), "swap"); return x.v.Swap(v) }
func (x *Value) CompareAndSwap(o, n any) bool {
	wr(unsafe.Pointer(x), "cas")
	return x.v.CompareAndSwap(o, n)
}

func LoadPointer(a *unsafe.Pointer) unsafe.Pointer {
	rd(unsafe.Pointer(a), "load")
	return atomic.LoadPointer(a)
}
func StorePointer(a *unsafe.Pointer, v unsafe.Pointer) {
	wr(unsafe.Pointer(a), "store")
	atomic.StorePointer(a, v)
}
func SwapPointer(a *unsafe.Pointer, v unsafe.Pointer) unsafe.Pointer {
	wr(unsafe.Pointer(a), "swap")
	return atomic.SwapPointer(a, v)
}
func CompareAndSwapPointer(a *unsafe.Pointer, o, n unsafe.Pointer) bool {
	wr(unsafe.Pointer(a), "cas")
	return atomic.CompareAndSwapPointer(a, o, n)
}
