// Package verifshim replaces "sync" and golibs/syncutil in the files of the
// repository that use them (through `go build -overlay`, see cmd/mkoverlay).
//
// Without an attached scheduler every type delegates to the real primitive, so
// the same binary is safe for goroutine-parallel enumeration.  With a scheduler
// attached (see sched.go) every Lock/Unlock/RLock/RUnlock/Get/Put becomes a
// scheduling point of a cooperative, fully controlled execution and feeds the
// happens-before monitor.
package verifshim

import (
	"sync"
	"time"
)

// Aliases for everything the shim does not model, so that a changed tree that
// starts using them still compiles.
type (
	Once      = sync.Once
	WaitGroup = sync.WaitGroup
	Map       = sync.Map
	Cond      = sync.Cond
	Locker    = sync.Locker
)

// NewCond mirrors sync.NewCond.
func NewCond(l Locker) *Cond { return sync.NewCond(l) }

// OnceFunc mirrors sync.OnceFunc.
func OnceFunc(f func()) func() { return sync.OnceFunc(f) }

// Mutex is a drop-in for sync.Mutex.
type Mutex struct {
	real   sync.Mutex
	locked bool
	owner  int
	vc     []int
}

// DeadlockWait, if not zero, bounds how long an uncontrolled Lock/RLock waits
// before it panics with a "lock never released" message.  The sequential
// history checks (every case owns its engines, critical sections last
// microseconds) set it so that a leaked lock is reported instead of hanging
// the check forever.
var DeadlockWait time.Duration

func lockOrPanic(try func() bool, block func(), what string) {
	if DeadlockWait == 0 {
		block()
		return
	}
	if try() {
		return
	}
	deadline := time.Now().Add(DeadlockWait)
	for time.Now().Before(deadline) {
		time.Sleep(200 * time.Microsecond)
		if try() {
			return
		}
	}
	panic("verifshim: " + what + " was not released within " + DeadlockWait.String() + " (leaked lock / deadlock)")
}

// Lock implements sync.Locker.
func (m *Mutex) Lock() {
	s := active
	if s == nil {
		lockOrPanic(m.real.TryLock, m.real.Lock, "Mutex")
		return
	}
	t := s.point(Op{Kind: OpLock, Mu: m})
	m.locked = true
	m.owner = t.ID
	t.acquire(m.vc)
}

// TryLock mirrors sync.Mutex.TryLock.
func (m *Mutex) TryLock() bool {
	s := active
	if s == nil {
		return m.real.TryLock()
	}
	t := s.point(Op{Kind: OpYield, Name: "trylock"})
	if m.locked {
		return false
	}
	m.locked = true
	m.owner = t.ID
	t.acquire(m.vc)
	return true
}

// Unlock implements sync.Locker.
func (m *Mutex) Unlock() {
	s := active
	if s == nil {
		m.real.Unlock()
		return
	}
	t := s.point(Op{Kind: OpUnlock, Mu: m})
	if !m.locked {
		panic("verifshim: unlock of unlocked Mutex")
	}
	m.locked = false
	m.vc = t.release()
}

// RWMutex is a drop-in for sync.RWMutex.
type RWMutex struct {
	real    sync.RWMutex
	wlocked bool
	readers int
	vc      []int // released by writers
	rvc     []int // released by readers since the last writer
}

// Lock locks for writing.
func (m *RWMutex) Lock() {
	s := active
	if s == nil {
		lockOrPanic(m.real.TryLock, m.real.Lock, "RWMutex")
		return
	}
	t := s.point(Op{Kind: OpWLock, RW: m})
	m.wlocked = true
	t.acquire(m.vc)
	t.acquire(m.rvc)
}

// Unlock unlocks for writing.
func (m *RWMutex) Unlock() {
	s := active
	if s == nil {
		m.real.Unlock()
		return
	}
	t := s.point(Op{Kind: OpWUnlock, RW: m})
	if !m.wlocked {
		panic("verifshim: unlock of unlocked RWMutex")
	}
	m.wlocked = false
	m.vc = t.release()
	m.rvc = nil
}

// RLock locks for reading.
func (m *RWMutex) RLock() {
	s := active
	if s == nil {
		lockOrPanic(m.real.TryRLock, m.real.RLock, "RWMutex (read)")
		return
	}
	t := s.point(Op{Kind: OpRLock, RW: m})
	m.readers++
	t.acquire(m.vc)
}

// RUnlock unlocks for reading.
func (m *RWMutex) RUnlock() {
	s := active
	if s == nil {
		m.real.RUnlock()
		return
	}
	t := s.point(Op{Kind: OpRUnlock, RW: m})
	if m.readers <= 0 {
		panic("verifshim: RUnlock of unlocked RWMutex")
	}
	m.readers--
	m.rvc = join(m.rvc, t.release())
}

// TryLock mirrors sync.RWMutex.TryLock.
func (m *RWMutex) TryLock() bool {
	s := active
	if s == nil {
		return m.real.TryLock()
	}
	t := s.point(Op{Kind: OpYield, Name: "trylock"})
	if m.wlocked || m.readers > 0 {
		return false
	}
	m.wlocked = true
	t.acquire(m.vc)
	t.acquire(m.rvc)
	return true
}

// TryRLock mirrors sync.RWMutex.TryRLock.
func (m *RWMutex) TryRLock() bool {
	s := active
	if s == nil {
		return m.real.TryRLock()
	}
	t := s.point(Op{Kind: OpYield, Name: "tryrlock"})
	if m.wlocked {
		return false
	}
	m.readers++
	t.acquire(m.vc)
	return true
}

// RLocker mirrors sync.RWMutex.RLocker.
func (m *RWMutex) RLocker() Locker { return (*rlocker)(m) }

type rlocker RWMutex

func (r *rlocker) Lock()   { (*RWMutex)(r).RLock() }
func (r *rlocker) Unlock() { (*RWMutex)(r).RUnlock() }

// Pool, OnceValue... : names of package sync the shim does not model.
type Pool = sync.Pool

// OnceValue mirrors sync.OnceValue.
func OnceValue[T any](f func() T) func() T { return sync.OnceValue(f) }

// OnceValues mirrors sync.OnceValues.
func OnceValues[T1, T2 any](f func() (T1, T2)) func() (T1, T2) { return sync.OnceValues(f) }

// Deterministic selects, for syncutil pools used without a scheduler, between
// the real sync.Pool (false) and the deterministic LIFO stack (true).  The
// stack is what sequential history exploration (E2) needs: sync.Pool may drop
// or keep objects at will.
var Deterministic bool

// PoolPoint is the scheduling point of a pool operation (used by the syncutil
// shim); it returns nil when no scheduler is attached.
func PoolPoint(get bool) *Thread {
	s := active
	if s == nil {
		return nil
	}
	k := OpPoolPut
	if get {
		k = OpPoolGet
	}
	return s.point(Op{Kind: k})
}

// Acquire joins a released vector clock into the thread's clock.
func (t *Thread) Acquire(vc []int) { t.acquire(vc) }

// Release returns a copy of the thread's clock and advances it.
func (t *Thread) Release() []int { return t.release() }

func join(a, b []int) []int {
	if len(b) == 0 {
		return a
	}
	if len(a) < len(b) {
		na := make([]int, len(b))
		copy(na, a)
		a = na
	}
	for i, x := range b {
		if x > a[i] {
			a[i] = x
		}
	}
	return a
}
