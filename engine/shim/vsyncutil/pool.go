// Package vsyncutil replaces golibs/syncutil in the files of the repository
// that use it (through `go build -overlay`, see cmd/mkoverlay).  Pool is a
// controlled, deterministic drop-in; everything else is an alias of the real
// package.
package vsyncutil

import (
	"sync"

	"github.com/AdguardTeam/golibs/syncutil"
	vs "github.com/AdguardTeam/urlfilter/verifshim"
)

// Names of golibs/syncutil the shim does not model.
type (
	Semaphore      = syncutil.Semaphore
	EmptySemaphore = syncutil.EmptySemaphore
	ChanSemaphore  = syncutil.ChanSemaphore
)

// NewChanSemaphore mirrors syncutil.NewChanSemaphore.
func NewChanSemaphore(maxRes uint) *ChanSemaphore { return syncutil.NewChanSemaphore(maxRes) }

// OnceConstructor mirrors syncutil.OnceConstructor (generic aliases are not
// available in go 1.23, hence a thin wrapper).
type OnceConstructor[K comparable, V any] struct {
	c *syncutil.OnceConstructor[K, V]
}

// NewOnceConstructor mirrors syncutil.NewOnceConstructor.
func NewOnceConstructor[K comparable, V any](newFunc func(k K) (v V)) *OnceConstructor[K, V] {
	return &OnceConstructor[K, V]{c: syncutil.NewOnceConstructor(newFunc)}
}

// Get mirrors (*syncutil.OnceConstructor).Get.
func (c *OnceConstructor[K, V]) Get(key K) (v V) { return c.c.Get(key) }

// Pool is a drop-in for golibs/syncutil.Pool.  With a scheduler attached it is
// a deterministic LIFO stack; Get and Put are scheduling points and carry a
// happens-before edge from Put(x) to the Get that returns x.
type Pool[T any] struct {
	real  *sync.Pool
	newFn func() *T

	mu    sync.Mutex // protects stack when no scheduler is attached
	stack []poolItem[T]

	// ForceNew makes the next Get return a fresh object even if the stack is
	// not empty (an environment choice the harness explores).
	ForceNew bool
}

type poolItem[T any] struct {
	v  *T
	vc []int
}

// NewPool mirrors syncutil.NewPool.
func NewPool[T any](newFunc func() (v *T)) (p *Pool[T]) {
	if newFunc == nil {
		panic("nil newFunc in NewPool")
	}
	p = &Pool[T]{newFn: newFunc}
	p.real = &sync.Pool{New: func() any { return newFunc() }}
	registerPool(p)
	return p
}

// NewSlicePool mirrors syncutil.NewSlicePool.
func NewSlicePool[T any](l int) (p *Pool[[]T]) {
	return NewPool(func() (v *[]T) {
		s := make([]T, l)
		return &s
	})
}

// Get mirrors syncutil.Pool.Get.
func (p *Pool[T]) Get() (v *T) {
	t := vs.PoolPoint(true)
	if t == nil {
		if !vs.Deterministic {
			return p.real.Get().(*T)
		}
		p.mu.Lock()
		defer p.mu.Unlock()
		return p.pop(nil)
	}
	return p.pop(t)
}

func (p *Pool[T]) pop(t *vs.Thread) (v *T) {
	if n := len(p.stack); n > 0 && !p.ForceNew {
		it := p.stack[n-1]
		p.stack = p.stack[:n-1]
		if t != nil {
			t.Acquire(it.vc)
		}
		return it.v
	}
	p.ForceNew = false
	return p.newFn()
}

// Put mirrors syncutil.Pool.Put.
func (p *Pool[T]) Put(v *T) {
	t := vs.PoolPoint(false)
	if t == nil {
		if !vs.Deterministic {
			p.real.Put(v)
			return
		}
		p.mu.Lock()
		defer p.mu.Unlock()
		p.stack = append(p.stack, poolItem[T]{v: v})
		return
	}
	p.stack = append(p.stack, poolItem[T]{v: v, vc: t.Release()})
}

// VerifStack returns the objects currently parked in the deterministic stack,
// bottom first.
func (p *Pool[T]) VerifStack() (vs []*T) {
	for _, it := range p.stack {
		vs = append(vs, it.v)
	}
	return vs
}

// VerifReset empties the deterministic stack.
func (p *Pool[T]) VerifReset() { p.stack = nil; p.ForceNew = false }

var (
	poolsMu sync.Mutex
	pools   []any
)

func registerPool(p any) {
	poolsMu.Lock()
	defer poolsMu.Unlock()
	if len(pools) > 64 {
		pools = pools[1:]
	}
	pools = append(pools, p)
}

// LastPool returns the most recently created pool (the harness creates one
// engine at a time when it needs this).
func LastPool() any {
	poolsMu.Lock()
	defer poolsMu.Unlock()
	if len(pools) == 0 {
		return nil
	}
	return pools[len(pools)-1]
}
