// Package statespace is engine E2: explicit-state breadth-first search whose
// transition function is the real API.  Live objects cannot be cloned, so a
// state is represented by the shortest operation history reaching it and a
// successor is computed by replaying the history on a fresh object and
// applying one more operation.
package statespace

import (
	"sync"
	"time"
)

// Outcome is what replaying one history yields.
type Outcome struct {
	// Key is the canonical key of the state reached.
	Key string
	// Enabled tells which operations are enabled in the state reached (nil =
	// all).
	Enabled []bool
	// Observation is a rendering of what the last operation returned (used
	// for the distinct-outcome statistics only).
	Observation string
}

// Model is the system under exploration.
type Model struct {
	NOps int
	// Run replays the history on a fresh object.  It reports violations
	// itself.
	Run func(history []int) Outcome
}

// Stats reports what a search covered.
type Stats struct {
	States           int64
	Transitions      int64
	MaxDepth         int
	Fixpoint         bool // the frontier emptied before the depth bound
	DeadlineHit      bool
	DistinctOutcomes int64
	PerDepth         []int64
}

type node struct {
	hist    []int
	enabled []bool
}

// BFS explores with de-duplication on Outcome.Key up to maxDepth (0 = until the
// frontier is empty).  If dedup is false every history is a state of its own
// (the guard against a canonical key that forgets hidden state).
func BFS(m Model, maxDepth int, dedup bool, workers int, deadline time.Time) Stats {
	var st Stats
	seen := map[string]bool{}
	outcomes := map[string]bool{}
	root := m.Run(nil)
	seen[root.Key] = true
	st.States = 1
	st.PerDepth = []int64{1}
	frontier := []node{{nil, root.Enabled}}
	for depth := 1; len(frontier) > 0; depth++ {
		if maxDepth > 0 && depth > maxDepth {
			return st
		}
		type child struct {
			hist []int
			out  Outcome
		}
		var jobs [][]int
		for _, n := range frontier {
			for op := 0; op < m.NOps; op++ {
				if n.enabled != nil && !n.enabled[op] {
					continue
				}
				h := make([]int, len(n.hist)+1)
				copy(h, n.hist)
				h[len(n.hist)] = op
				jobs = append(jobs, h)
			}
		}
		results := make([]child, len(jobs))
		var wg sync.WaitGroup
		ch := make(chan int, 256)
		var stop bool
		var firstPanic any
		var mu sync.Mutex
		for w := 0; w < workers; w++ {
			wg.Add(1)
			go func() {
				defer wg.Done()
				for i := range ch {
					mu.Lock()
					s := stop
					mu.Unlock()
					if s {
						continue
					}
					if time.Now().After(deadline) {
						mu.Lock()
						stop = true
						mu.Unlock()
						continue
					}
					func() {
						defer func() {
							if r := recover(); r != nil {
								mu.Lock()
								if firstPanic == nil {
									firstPanic = r
								}
								stop = true
								mu.Unlock()
							}
						}()
						results[i] = child{jobs[i], m.Run(jobs[i])}
					}()
				}
			}()
		}
		for i := range jobs {
			ch <- i
		}
		close(ch)
		wg.Wait()
		if firstPanic != nil {
			panic(firstPanic) // on the caller's goroutine
		}
		if stop {
			st.DeadlineHit = true
			return st
		}
		var next []node
		var newStates int64
		for _, r := range results {
			st.Transitions++
			outcomes[r.out.Observation] = true
			if dedup {
				if seen[r.out.Key] {
					continue
				}
				seen[r.out.Key] = true
			}
			newStates++
			next = append(next, node{r.hist, r.out.Enabled})
		}
		st.States += newStates
		st.PerDepth = append(st.PerDepth, newStates)
		st.DistinctOutcomes = int64(len(outcomes))
		if newStates > 0 {
			st.MaxDepth = depth
		}
		frontier = next
	}
	st.Fixpoint = true
	return st
}
