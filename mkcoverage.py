#!/usr/bin/env python3
"""Prints the DESIGN.md §0.3 table from the evidence files: quick from
/verif/evidence/<id>.json, thorough from /verif/evidence_thorough/<id>.json
(copies taken by the thorough sweep).  Only measured counters are shown."""
import json, os

KEYS = ["states", "transitions", "schedules", "evaluations", "distinct_nontrivial", "traces_validated_against_impl", "max_depth",
        "max_preemptions_completed_all_jobs", "jobs"]


def cell(path):
    if not os.path.exists(path):
        return "(not run)"
    e = json.load(open(path))
    c = e.get("coverage", {})
    parts = []
    for k in KEYS:
        v = c.get(k)
        if isinstance(v, (int, float)) and v:
            parts.append(f"{k.replace('_', ' ')} {v:,}".replace(",", " "))
    parts.append("exhaustive" if c.get("exhaustive") else "bounded by the deadline (exhaustive: false)")
    parts.append(f"{e.get('wall_s', 0):.0f} s")
    return "; ".join(parts)


print("| id | quick | thorough |")
print("|---|---|---|")
for n in range(1, 21):
    p = f"C{n:02d}"
    print(f"| {p} | {cell(f'/verif/evidence/{p}.json')} | {cell(f'/verif/evidence_thorough/{p}.json')} |")
