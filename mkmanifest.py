#!/usr/bin/env python3
"""Regenerates /verif/MANIFEST.json from the table below (kept in one place so
that the manifest is valid at every commit)."""
import json, subprocess

HOOK_COMMITS = subprocess.run(
    "git -C /repo log --format=%h --grep='^verif hooks:'", shell=True, capture_output=True, text=True
).stdout.split()

# id -> (engine, level, technique, level text, level note, design ref)
CHECKS = {
 "C04": ("E4", "exploration",
         "bounded-exhaustive enumeration of structurally generated rules (all ordered value lists per modifier, full absent/rep1/rep2 product across modifiers) x request alphabet against a reference matcher",
         "Rules are generated as structures and rendered to text; an independent reference matcher (mask automaton on the proper target, party, content types, $domain with sub-domain and wildcard-TLD label-boundary semantics, $denyallow, $dnstype, $ctag, $client with names/addresses/CIDR/quoting) works on the structure, NetworkRule.Match on the text. Every ordered value list of length 1..3 (thorough 1..4) per modifier decides 'value order never matters' directly; the 3^9 product covers modifier interactions.",
         "Trusted: rules.NewRequest for request fields (property C17); the C03 mask automaton as pattern reference (property C03). Value alphabets are finite (6-8 values per modifier).",
         "DESIGN.md §3 C04"),
 "C06": ("E4", "exploration",
         "bounded-exhaustive enumeration of all multisets of matching rules, all permutations and list splits, against a reference precedence function",
         "Every multiset of <=4 (thorough <=5) rules over a 25-symbol alphabet of request-level and referrer-level rules, each list in every distinct permutation through NewMatchingResult/GetBasicResult and GetDNSBasicRule, and every set of <=3 in every line order and every split into two lists through Engine, NetworkEngine and DNSEngine; the verdict class is compared with the documented precedence and the returned rule is never a rewrite, badfilter or stealth rule.",
         "Trusted: the alphabet covers the features the precedence reads (exception, important, $domain, document-level modifiers, $dnsrewrite, $badfilter twins, $stealth); ties inside a class are not compared.",
         "DESIGN.md §3 C06"),
 "C07": ("E4", "exploration",
         "exhaustive pair/triple check of the priority relation on a feature-complete rule pool via bit-matrix products; all permutations of candidate lists",
         "The higher-priority relation is tabulated on a pool of 3840 rules (every combination of the features the comparison reads); irreflexivity, asymmetry, transitivity and transitivity of incomparability are decided for ALL pairs and triples of the pool by bit-matrix products, consistency with (class, specific, modifier count) for all pairs, 'adding a modifier raises priority' for every rule x addable modifier, and maximality of the selected rule for every list of <=3/<=4 priority-key representatives in every permutation.",
         "Trusted: $redirect cannot be parsed and is outside the pool; modifier count = number of modifiers written.",
         "DESIGN.md §3 C07"),
 "C08": ("E4", "exploration",
         "bounded-exhaustive enumeration: all ordered rule pairs x badfilter positions, all arrangements of k twins around base lists, engine layer",
         "For every ordered pair of 35 structurally given rules and every position of the badfilter modifier the twin disables the other rule iff they are identical apart from badfilter (basic rules and $dnsrewrite rules); every base multiset with k<=2 (thorough 3) extra rules and their twins in every distinct arrangement leaves verdict class and priority key unchanged; no badfilter rule is ever returned; the same through Engine, NetworkEngine and DNSEngine.",
         "Trusted: twins keep the value order inside a modifier.",
         "DESIGN.md §3 C08"),
 "C09": ("E4", "exploration",
         "bounded-exhaustive enumeration of all rule sequences over the rewrite alphabet against a reference filter",
         "Every sequence of length 0..4 (thorough 0..5) over 47 rewrite symbols (11 values x important x exception, empty-valued exceptions), every sequence of length 5..6 (7) over a 14-symbol sub-alphabet, and every sequence of <=3 (4) through the real DNSEngine; DNSRewrites() is compared with the reference filter as a sequence, is idempotent and leaves the result unchanged.",
         "Trusted: the parsed rewrite values come from the rule parser (property C10).",
         "DESIGN.md §3 C09"),
 "C10": ("E4", "exploration",
         "bounded-exhaustive enumeration of token sequences and of the structured rcode;rrtype;value product against the published shape predicate",
         "Every concatenation of <=3 (thorough <=5) tokens over a 46-token alphabet and the product 7 rcodes x 17 record types x all space-joined values of <=3 (4) of 18 value tokens is parsed twice; every accepted value satisfies the RRValue shape predicate, parsing is deterministic and never panics.",
         "Byte-level mutation/fuzzing is a different family and is not done; the claim is exhaustive up to the token bounds.",
         "DESIGN.md §3 C10"),
 "C11": ("E4", "exploration",
         "bounded-exhaustive enumeration of list contents, encodings, backings and id assignments against a line-by-line reference parse",
         "Every content of <=2 (thorough <=3) lines over 26 line kinds (incl. lines of 4094..8193 bytes around the 4 KiB block boundaries, UTF-8, NUL) x LF/CRLF x final newline x IgnoreCosmetic x String/File backing, and every injective assignment of ids from {0,1,-1,2,MaxInt32,MinInt32} to 1..4 lists: scan equals the reference parse, every index retrieves the scanned rule (reverse/forward, cold/cached), indexes are injective, String and File engines answer identically.",
         "Trusted: rules.NewRule is the line parser on both sides; retrieval happens after the scan finished.",
         "DESIGN.md §3 C11"),
 "C12": ("E4", "exploration",
         "bounded-exhaustive enumeration of token lines through every parser, matcher and engine; all noise placements in all short lists",
         "Every line of <=3 (thorough <=4) tokens over 35 tokens goes through NewRule/NewNetworkRule/NewHostRule/NewCosmeticRule, every rule obtained is matched against 8 requests (twice, to take the compiled path) and engines of every kind are built from short lines: no panic, Text()==TrimSpace(line), list id kept. Every list of <=2 (3) of 10 rules with each of 11 noise lines at every non-empty subset of the gaps, LF and CRLF, answers exactly as the noise-free list.",
         "Arbitrary byte strings / fuzzing are a different family; exhaustive up to the token bound only.",
         "DESIGN.md §3 C12"),
 "C15": ("E4", "exploration",
         "exhaustive enumeration of all subsets of a cosmetic rule alphabet x hostnames x flag triples against CosmeticRule.Match over all rules",
         "All 2^14 (thorough 2^16) subsets of element-hiding rules and exceptions in two line orders x 9 hostnames x all 8 flag triples through CosmeticEngine.Match and Engine.GetCosmeticResult; the Generic and Specific selector sets equal the reference computed with CosmeticRule.Match over all rules.",
         "Trusted: CosmeticRule.Match as the definition of 'applies' (its domain helper is checked under C04); buckets compared as sets.",
         "DESIGN.md §3 C15"),
 "C17": ("E4", "exploration",
         "exhaustive enumeration of hostnames over a label alphabet x URL shapes x sources against net/url and publicsuffix",
         "Every hostname of 1..3 (thorough 1..4) labels over 16 labels x 3 schemes x 11 tails x 41 sources: Hostname equals net/url's, Domain equals the PSL eTLD+1 (or the hostname), ThirdParty iff registrable domains differ and is symmetric, URLLowerCase is the lower-cased capped URL; hostname requests likewise.",
         "Only the label alphabet is covered, not every PSL rule; URLs the standard parser rejects are outside the quantifier.",
         "DESIGN.md §3 C17"),
 "C18": ("E4", "exploration",
         "grammar expansion of hosts-file lines against an independent parse",
         "Every line of the grammar address(7 forms incl. bare domain) x separators(4) x 1..3 (thorough 1..4, 5..8 over two names) names x 9 comment forms x 3 trailing blanks through NewRule, NewHostRule, HostRule.Match on listed/truncated/extended names and a one-line DNSEngine (IPv4/IPv6 grouping).",
         "A double '#' is generated only after a space; results compared as sets.",
         "DESIGN.md §3 C18"),
 "C20": ("E4", "exploration",
         "bounded-exhaustive enumeration of bodies (token sequences, window-edge placements, byte probes), plain and gzip, against a byte-level splice oracle",
         "Every body of <=3 (thorough <=4) tokens over 24 tokens, every marker at offsets 16375..16386 with 0/1/7/100 high bytes before it, all 256 byte values alone/before/after a marker, each plain and gzip-encoded, through the real filterHTML: output == body[:i]+tag+body[i:] for the first in-window marker, else unchanged; Content-Length equals the new length; Content-Encoding removed.",
         "With bytes >= 0x80 before the marker the window is ambiguous between original and transcoded offsets; both outcomes accepted in that band only. Bodies > 40 KiB and encodings other than gzip are not covered.",
         "DESIGN.md §3 C20"),
 "C05": ("E3", "model_checking",
         "automata-based language inclusion: reachability in (DFA of the rule's compiled regexp/syntax.Prog x KMP automaton of the shortcut), violation = reachable accepting state with incomplete shortcut, witness confirmed on the real matcher",
         "For every rule (mask patterns up to the C03 token bound, every valid regular expression of <=3/<=4 tokens over a 21-token regex alphabet with alternation, groups, classes, escapes and quantifiers, and every regex rule of the bundled lists) emptiness of L(compiled) minus 'contains shortcut' is decided for ALL strings over graphic ASCII by exhaustive product reachability.",
         "Trusted: regexp/syntax is what regexp.Compile runs (violations are only reported for a concrete witness on which the real regexp matches, strings.Contains fails and NetworkRule.Match rejects); graphic ASCII alphabet; state cap 200k per rule (a hit is reported as non-exhaustive).",
         "DESIGN.md §2.6, §3 C05"),
 "C03": ("E3", "model_checking",
         "automata-based language equivalence: on-the-fly determinisation of the rule's compiled regexp/syntax.Prog x reference mask automaton, all reachable product states over 94 ASCII characters, every state witness replayed on the real regexp and NetworkRule.Match",
         "For every mask pattern of <=3 (quick) / <=4 (thorough) tokens over a 25-token alphabet containing every regex metacharacter, with and without $match-case, the language of the compiled matcher is compared with the documented mask language for ALL strings over graphic ASCII by exhaustive product-state reachability (not by sampling strings). Crash-freedom of preparing and matching is checked for every accepted pattern.",
         "Trusted: regexp/syntax is what regexp.Compile runs (bound by replaying every product-state witness, and in the thorough tier every transition witness, on the real *regexp.Regexp; disagreement is a harness error, exit 2). Space excluded from the alphabet; '||' under $match-case uses sandwich bounds. Patterns beyond the token bound are not covered (no sampling).",
         "DESIGN.md §2.6, §3 C03"),
 "C14": ("E1", "model_checking",
         "stateless model checking of the real engines: controlled cooperative scheduler (sync shim via build overlay), preemption-bounded DFS over all schedules, vector-clock happens-before monitor, deterministic schedule replay",
         "Every schedule with at most 2 (quick) / 3 (thorough) preemptions of 40 jobs (10 two- and three-thread scenarios x String/File backing x cold/warm cache) is executed on the real NetworkEngine/DNSEngine/Engine; two-thread single-query scenarios are explored without a preemption bound in the thorough tier. Each execution is compared with the sequential answers (ordered, with multiplicity), and checked for panics, deadlock and happens-before races on the annotated shared locations. A failing schedule is replayed twice for determinism before it is reported.",
         "Trusted: stdlib internals are atomic steps; sequential consistency (weaker orderings only via the race monitor on annotated locations and the auxiliary free-running go -race pass, which is evidence, not the deciding step); 2-3 threads, <=2 queries each.",
         "DESIGN.md §2.4, §3 C14"),
 "C16": ("E4", "exploration",
         "bounded-exhaustive enumeration: all 2^9 modifier subsets x all option orders against a bit-set reference",
         "Complete enumeration of the finite space the property quantifies over (all 512 subsets of the nine exception modifiers, every permutation of each in the thorough tier, every edge of the subset lattice for monotonicity, all 64 low option values for flag decoding) through NewMatchingResult and Engine.MatchRequest; the space is finite so enumeration decides it.",
         "Trusted: the parser maps each modifier name to the option it documents (checked for the modifiers used, not for aliases); options outside CSS/GenericCSS/JS are not produced.",
         "DESIGN.md §3 C16"),
}

PLANNED = {f"C{i:02d}" for i in range(1, 21)} - set(CHECKS)

manifest = {
 "version": 1,
 "setup_cmd": "/verif/setup.sh",
 "hooks": {
   "guard": "verif",
   "enable": "go build -tags verif -overlay <generated by engine/cmd/mkoverlay> (run.sh does this on every invocation from /repo's working tree)",
   "baseline_off_cmd": "cd /repo && GOFLAGS=-mod=mod GOPROXY=off GOSUMDB=off GOTOOLCHAIN=local go test -json -vet=off -count=1 -timeout 25m ./...",
   "source_commits": HOOK_COMMITS,
   "add_only": True,
 },
 "engines": [
   {"name": "E1", "path": "engine/shim/sched.go, engine/sched", "serves_properties": ["C14"], "kind_free_text": "controlled cooperative scheduler over the real engines (sync shim injected by build overlay), preemption-bounded DFS, vector-clock race monitor, schedule replay"},
   {"name": "E2", "path": "engine/statespace", "serves_properties": ["C01", "C02", "C13", "C19"], "kind_free_text": "explicit-state BFS whose transition function is the real API call; canonical state hash from exported private state; fault enumeration"},
   {"name": "E3", "path": "engine/automata", "serves_properties": ["C03", "C05"], "kind_free_text": "product-automaton reachability: on-the-fly determinisation of the rule's compiled regexp/syntax.Prog x reference automaton, witness replay on the real matcher"},
   {"name": "E4", "path": "engine/enum, engine/ref", "serves_properties": ["C04", "C06", "C07", "C08", "C09", "C10", "C11", "C12", "C15", "C16", "C17", "C18", "C20"], "kind_free_text": "bounded-exhaustive enumeration of finite input/configuration spaces against boring reference models"},
 ],
 "checks": [],
 "not_applicable": [],
 "notes": "All checks are `run.sh <id> <tier>`; run.sh regenerates the overlay and rebuilds the check binary from /repo's current working tree on every invocation. Known findings: /verif/known_findings.txt. Replays: /verif/replays/<id>/.",
}
for pid in sorted(CHECKS):
    eng, level, tech, text, note, ref = CHECKS[pid]
    manifest["checks"].append({
        "property_id": pid,
        "quick_cmd": f"/verif/run.sh {pid} quick",
        "thorough_cmd": f"/verif/run.sh {pid} thorough",
        "evidence_file": f"/verif/evidence/{pid}.json",
        "replay_cmd_template": f"/verif/run.sh {pid} quick --replay {{path}}",
        "engine": eng,
        "level_claimed": {"category": level, "text": text, "design_ref": ref},
        "level_note": note,
        "technique": tech,
    })
for pid in sorted(PLANNED):
    manifest["not_applicable"].append({"property_id": pid, "reason": "check not built yet in this round (designed in DESIGN.md §3; model checking applies)"})
json.dump(manifest, open("/verif/MANIFEST.json", "w"), indent=1)
print("checks:", len(manifest["checks"]), "not_applicable:", len(manifest["not_applicable"]), "hooks:", HOOK_COMMITS)
