#!/usr/bin/env python3
"""Prints the DESIGN.md §8 table (which check catches which change) from
/verif/selftest_results.jsonl: for every change the union of the checks that
reported a violation in the latest run of each check against that change."""
import json, os, sys

rows = [json.loads(l) for l in open("/verif/selftest_results.jsonl")]
per = {}     # id -> {check -> latest exit}
desc = {}
rejected = set()
order = []
for r in rows:
    i = r["id"]
    if i not in per:
        per[i] = {}
        order.append(i)
    if r.get("desc"):
        desc[i] = r["desc"]
    if r.get("suite_passes") is False:
        rejected.add(i)
        continue
    rejected.discard(i)
    for p, v in r.get("results", {}).items():
        per[i][p] = v["exit"]


def key(i):
    k = i.split("-")
    rnd = 0 if i.startswith("M") else (1 if k[0] == "S" else int(k[0][1:]))
    return (rnd, i)


neutral = [i for i in order if i.startswith("N-")]
order = [i for i in order if not i.startswith("N-")]
if len(sys.argv) > 1 and sys.argv[1] == "--neutral":
    # behaviour-preserving changes: every check listed ran against the change and must have stayed silent
    print("| change | what | checks run against it | outcome |")
    print("|---|---|---|---|")
    for i in sorted(neutral):
        d = json.load(open(f"/verif/neutral/{i}/meta.json")).get("what", "")
        d = d.replace("\n", " ").replace("|", "\\|").lstrip("# ").strip()[:150]
        alarms = [p for p, e in per[i].items() if e == 1]
        broken = [p for p, e in per[i].items() if e not in (0, 1)]
        out = "silent" if not alarms and not broken else ("ALARM in " + ", ".join(alarms + broken))
        print(f"| {i} | {d} | {', '.join(sorted(per[i]))} | {out} |")
    sys.exit(0)

print("| change | what | outcome |")
print("|---|---|---|")
for i in sorted(order, key=key):
    d = desc.get(i, "")
    if i.startswith("S"):
        m = f"/verif/seeded/{i}/meta.json"
        if os.path.exists(m):
            d = json.load(open(m)).get("what", d)
    d = d.replace("\n", " ").replace("|", "\\|").lstrip("# ").strip()[:150]
    if i in rejected:
        out = "(rejected: the repository's own tests fail with it)"
    else:
        caught = [p for p, e in per[i].items() if e == 1]
        broken = [p for p, e in per[i].items() if e not in (0, 1)]
        out = ("caught by " + ", ".join(caught)) if caught else "not caught"
        if broken:
            out += " (harness error in " + ", ".join(broken) + ")"
    print(f"| {i} | {d} | {out} |")
