#!/bin/bash
# run.sh <Cnn> <quick|thorough> [--replay <file>]
# Rebuilds the check binary from /repo's current working tree (hooks on, sync
# shim injected through a build overlay) and runs one property check.
set -u
export GOFLAGS=-mod=mod GOPROXY=off GOSUMDB=off GOTOOLCHAIN=local
export GOCACHE="${GOCACHE:-/root/.cache/go-build}"
V=/verif
REPO="${VERIF_REPO:-/repo}"
W="$V/.work/$$"
mkdir -p "$W" || exit 2
trap 'rm -rf "$W"' EXIT
ENGINE="${VERIF_ENGINE:-$V/engine}"   # selftest.py points this at a frozen copy
cd "$ENGINE" || exit 2
cmp -s "$REPO/go.sum" go.sum || cp "$REPO/go.sum" go.sum
if ! go run ./cmd/mkoverlay -repo "$REPO" -shim "$ENGINE/shim" -out "$W" ${VERIF_REPLACE:-} 2>"$W/mkoverlay.log"; then
  cat "$W/mkoverlay.log" >&2; echo "harness error: mkoverlay failed" >&2; exit 2
fi
if ! go build -tags verif -overlay "$W/overlay.json" -o "$W/check" ./cmd/check 2>"$W/build.log"; then
  cat "$W/build.log" >&2; echo "harness error: build failed" >&2; exit 2
fi
export VERIF_WORK="$W" VERIF_OVERLAY="$W/overlay.json" VERIF_ENGINE="$ENGINE"
"$W/check" "$@"
