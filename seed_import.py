#!/usr/bin/env python3
"""Imports seeded changes produced by independent sub-agents (/tmp/seed-Cxx/{A,B}.*)
into /verif/seeded/S-Cxx-{A,B}/ after CONFIRMING each one in a scratch worktree:
  * the demonstration passes on the unmodified tree,
  * the patch applies, the repository builds and its whole test suite passes,
  * the demonstration fails with the patch applied.
Usage: seed_import.py [--round2] C01 C02 ...   (worktree /tmp/wt-verify is created and removed)
"""
import json, os, re, shutil, subprocess, sys

ENV = dict(os.environ, GOFLAGS="-mod=mod", GOPROXY="off", GOSUMDB="off", GOTOOLCHAIN="local")
WT = "/tmp/wt-verify"
SRC_PREFIX, ID_PREFIX = "seed", "S"


def sh(cmd, cwd=None, timeout=900):
    return subprocess.run(cmd, shell=True, capture_output=True, text=True, errors="replace", env=ENV, cwd=cwd, timeout=timeout)


def clean():
    sh("git checkout -- . && git clean -fdq", cwd=WT)


def parse_demo(path):
    first = open(path).readline()
    m = re.search(r"([\w./-]+(?:_test\.go|main\.go))", first)
    place = m.group(1).lstrip("/") if m else None
    m = re.search(r"(go (?:test|run)[^`;)]*)", first)
    cmd = m.group(1).split(" (")[0].strip() if m else None
    return place, cmd, first.strip()


def verify(pid, ab):
    src = f"/tmp/{SRC_PREFIX}-{pid}"
    patch = f"{src}/{ab}.patch.diff"
    demos = [f for f in os.listdir(src) if f.startswith(ab + ".demo")]
    rec = {"id": f"{ID_PREFIX}-{pid}-{ab}", "property": pid}
    if not os.path.exists(patch) or not demos:
        rec["error"] = "missing patch or demo"
        return rec
    demo = f"{src}/{demos[0]}"
    if os.path.isdir(demo):
        demo = f"{demo}/main.go"
    place, cmd, first = parse_demo(demo)
    rec["demo_first_line"] = first
    if not place or not cmd:
        rec["error"] = "cannot parse demo placement/command"
        return rec
    clean()
    dst = os.path.join(WT, place)
    os.makedirs(os.path.dirname(dst), exist_ok=True)
    shutil.copy(demo, dst)
    r0 = sh(cmd, cwd=WT)
    rec["demo_without_change"] = "pass" if r0.returncode == 0 else "FAIL"
    a = sh(f"git apply {patch}", cwd=WT)
    if a.returncode != 0:
        rec["error"] = "patch does not apply: " + a.stderr[-200:]
        clean()
        return rec
    r1 = sh(cmd, cwd=WT)
    rec["demo_with_change"] = "fail" if r1.returncode != 0 else "PASS"
    os.remove(dst)
    s = sh("go build ./... && go test -vet=off -count=1 ./... 2>&1", cwd=WT)
    rec["suite_with_change"] = "pass" if s.returncode == 0 and "FAIL" not in s.stdout else "FAIL"
    clean()
    rec["confirmed"] = rec["demo_without_change"] == "pass" and rec["demo_with_change"] == "fail" and rec["suite_with_change"] == "pass"
    if rec["confirmed"]:
        d = f"/verif/seeded/{ID_PREFIX}-{pid}-{ab}"
        os.makedirs(d, exist_ok=True)
        shutil.copy(patch, f"{d}/patch.diff")
        shutil.copy(demo, f"{d}/" + os.path.basename(place))
        notes = f"{src}/{ab}.notes.md"
        if os.path.exists(notes):
            shutil.copy(notes, f"{d}/notes.md")
        meta = {
            "id": f"{ID_PREFIX}-{pid}-{ab}", "property": pid, "checks": [pid],
            "origin": "independent sub-agent given only the property text and a scratch worktree",
            "what": open(notes).read().split("\n\n")[0][:600] if os.path.exists(notes) else "",
            "needs_to_manifest": "see notes.md",
            "demo": {"place_at": place, "run": cmd},
            "confirmed_by_me": {"worktree": "scratch git worktree of /repo HEAD under /tmp (removed afterwards)",
                                "demo_without_change": "pass", "patch_applies": True, "suite_with_change": "pass", "demo_with_change": "fail"},
        }
        json.dump(meta, open(f"{d}/meta.json", "w"), indent=1)
    return rec


if __name__ == "__main__":
    if len(sys.argv) > 1 and sys.argv[1].startswith("--round"):
        n = sys.argv[1][len("--round"):]
        SRC_PREFIX, ID_PREFIX = "seed" + n, "S" + n
        sys.argv.pop(1)
    sh(f"git -C /repo worktree remove --force {WT}")
    r = sh(f"git -C /repo worktree add -q --detach {WT} HEAD")
    if r.returncode != 0:
        print(r.stderr); sys.exit(2)
    try:
        for pid in sys.argv[1:]:
            for ab in ("A", "B"):
                try:
                    rec = verify(pid, ab)
                except Exception as e:  # noqa
                    rec = {"id": f"{ID_PREFIX}-{pid}-{ab}", "error": repr(e)}
                print(json.dumps(rec), flush=True)
    finally:
        sh(f"git -C /repo worktree remove --force {WT}")
