#!/usr/bin/env python3
"""Detection self-test: applies each property-breaking change to /repo's working
tree (never committed), checks that the repository's own test suite still
passes, runs the quick check of the properties it should break, expects exit 1
with a VIOLATION line, and reverts the tree (git checkout -- .) straight away.

  selftest.py                run all built-in mutants
  selftest.py M07a M14b      run selected mutants
  selftest.py --seeded       run every /verif/seeded/<id>/patch.diff against the checks named in its meta.json
  selftest.py --seeded S-C01-A
Results are appended to /verif/selftest_results.jsonl.
"""
import json, os, subprocess, sys, time

ENV = dict(os.environ, GOFLAGS="-mod=mod", GOPROXY="off", GOSUMDB="off", GOTOOLCHAIN="local")
REPO = os.environ.get("SELFTEST_REPO", "/repo")  # a scratch worktree of /repo for parallel regression runs

# (id, properties expected to fail, file, old, new, description)
MUTANTS = [
 ("M01a", ["C01"], "lookup/shortcutstable.go", "if rule == nil || ruleIn(rule, result) || !rule.Match(r) {", "if rule == nil || ruleIn(rule, result) || !strings.Contains(r.URLLowerCase, rule.Shortcut) {", "shortcut bucket hit re-checks only the shortcut, not rule.Match"),
 ("M01b", ["C01"], "lookup/shortcutstable.go", "for i := 0; i <= len(r.URLLowerCase)-shortcutLength; i++ {\n\t\t// The shortcutsLookupTable", "for i := 0; i < len(r.URLLowerCase)-shortcutLength; i++ {\n\t\t// The shortcutsLookupTable", "window loop skips the last 5-byte window of the URL"),
 ("M01c", ["C01"], "lookup/domainstable.go", "for i := len(parts) - 1; i >= 0; i-- {", "for i := len(parts) - 1; i > 0; i-- {", "getSubdomains skips the full hostname"),
 ("M02a", ["C02", "C18"], "dnsengine.go", "if rule != nil && rule.Match(hostname) {", "if rule != nil {", "host table hit is not re-checked with HostRule.Match (hash collisions leak)"),
 ("M02b", ["C02"], "dnsengine.go", "\t\treturn res, true\n\t}\n\n\trr, ok := d.matchLookupTable(dReq.Hostname)", "\t}\n\n\trr, ok := d.matchLookupTable(dReq.Hostname)", "host rules consulted although a basic network rule exists"),
 ("M03a", ["C03"], "rules/regex.go", "\t`?`, `\\?`,\n", "", "'?' no longer escaped in mask patterns"),
 ("M03b", ["C03"], "rules/regex.go", 'RegexSeparator = "([^ a-zA-Z0-9.%_-]|$)"', 'RegexSeparator = "([^ a-zA-Z0-9._-]|$)"', "'%' treated as a separator"),
 ("M03c", ["C03"], "rules/regex.go", "strings.ReplaceAll(regex[len(MaskPipe):len(regex)-1], MaskPipe, \"\\\\\"+MaskPipe) +", "regex[len(MaskPipe):len(regex)-1] +", "inner pipes no longer escaped (non-|| branch)"),
 ("M04a", ["C04"], "rules/network.go", "\t\t} else if r < 0 {\n\t\t\tiRule++\n\t\t} else {\n\t\t\tiClient++", "\t\t} else if r < 0 {\n\t\t\tiClient++\n\t\t} else {\n\t\t\tiRule++", "merge over sorted tag lists advances the wrong cursor"),
 ("M04b", ["C04"], "rules/helpers.go", "(strings.HasSuffix(domain, d) &&\n\t\t\t\t\tstrings.HasSuffix(domain, \".\"+d))", "strings.HasSuffix(domain, d)", "sub-domain test without the label boundary"),
 ("M04c", ["C04"], "rules/rule.go", "\tpermittedClients.finalize()\n", "", "permitted clients not sorted (binary search on unsorted names)"),
 ("M05a", ["C05", "C03"], "rules/network.go", "f.Shortcut = strings.ToLower(shortcut)", "f.Shortcut = shortcut", "shortcut not lower-cased"),
 ("M05b", ["C05"], "rules/network.go", "if longest != \"\" && !regexpRequiresLiteral(expr, longest) {", "if longest != \"\" && !strings.Contains(expr, \"|\") && !regexpRequiresLiteral(expr, longest) {", "required-literal check skipped when the expression has an alternation"),
 ("M06a", ["C06"], "rules/match.go", "\tsourceRules = removeBadfilterRules(sourceRules)\n", "", "badfilter not applied to referrer-level rules"),
 ("M06b", ["C06"], "rules/match.go", "if !genericAllowed && rule.IsGeneric() {", "if !genericAllowed && !rule.IsGeneric() {", "genericblock suppresses the specific rules instead of the generic ones"),
 ("M06c", ["C06", "C07"], "rules/network.go", "\tif important && !rImportant {\n\t\treturn true\n\t}\n\n\tif rImportant && !important {\n\t\treturn false\n\t}\n\n\tif f.Whitelist && !r.Whitelist {\n\t\treturn true\n\t}\n\n\tif r.Whitelist && !f.Whitelist {\n\t\treturn false\n\t}", "\tif f.Whitelist && !r.Whitelist {\n\t\treturn true\n\t}\n\n\tif r.Whitelist && !f.Whitelist {\n\t\treturn false\n\t}\n\n\tif important && !rImportant {\n\t\treturn true\n\t}\n\n\tif rImportant && !important {\n\t\treturn false\n\t}", "class tests swapped: plain exception beats important block"),
 ("M07a", ["C07"], "rules/network.go", "\treturn count > rCount\n", "\treturn count >= rCount\n", "ties outrank each other"),
 ("M07b", ["C07"], "rules/network.go", "\tif generic && !rGeneric {\n\t\t// ... and generic rules never outrank specific ones\n\t\treturn false\n\t}\n", "", "mirrored generic/specific test dropped"),
 ("M08a", ["C08"], "rules/network.go", "\t\tf.Whitelist != r.Whitelist,\n", "", "badfilter ignores the exception flag"),
 ("M08b", ["C08", "C06"], "rules/match.go", "\t\t\tif rule.IsOptionEnabled(OptionBadfilter) {\n\t\t\t\tcontinue\n\t\t\t}\n", "", "badfilter rules themselves stay in the result"),
 ("M09a", ["C09"], "dnsrewrite.go", "\tif !excImportant && nr.IsOptionEnabled(rules.OptionImportant) {", "\tif false && !excImportant && nr.IsOptionEnabled(rules.OptionImportant) {", "non-important exceptions disable important rewrites"),
 ("M09b", ["C09"], "dnsrewrite.go", "\t\t\ti = -1\n", "", "scan not restarted after removing an exception"),
 ("M10a", ["C10"], "rules/dnsrewrite.go", "\t\t} else if !ip.Is4() {\n\t\t\treturn nil, fmt.Errorf(\"%q is not a valid ipv4\", valStr)\n\t\t}\n", "\t\t}\n", "A record accepts IPv6 addresses"),
 ("M10b", ["C10"], "rules/dnsrewrite.go", "\tif rcode != dns.RcodeSuccess || (rrStr == \"\" && valStr == \"\") {", "\tif (rcode != dns.RcodeSuccess && rrStr == \"\") || (rrStr == \"\" && valStr == \"\") {", "non-success response code keeps a record type"),
 ("M11a", ["C11"], "filterlist/rulelist.go", "\t\t\t\tline += string(b[:idx])\n", "\t\t\t\tline = string(b[:idx])\n", "readLine overwrites instead of appending across blocks"),
 ("M11b", ["C11"], "filterlist/rulestoragescanner.go", "return int64(listID)<<32 | int64(ruleIdx)&0xFFFFFFFF", "return int64(listID)<<32 | int64(ruleIdx)", "index packing without the mask (negative offsets cannot occur, but... see M11c)"),
 ("M11c", ["C11"], "filterlist/rulelist.go", "endOfLine := strings.IndexByte(l.RulesText[ruleIdx:], '\\n')", "endOfLine := strings.IndexAny(l.RulesText[ruleIdx:], \"\\r\\n#\")", "StringRuleList cuts retrieved lines at '#' too"),
 ("M12a", ["C12", "C03"], "rules/regex.go", "} else if len(regex) > len(MaskPipe) {", "} else {", "one-character pattern panic re-introduced"),
 ("M12b", ["C12", "C11"], "filterlist/rulescanner.go", "if rule != nil && err == nil && !s.isIgnored(rule) {", "if rule != nil && !s.isIgnored(rule) {", "scanner accepts a rule although parsing returned an error"),
 ("M13a", ["C13", "C14"], "dnsengine.go", "\treq.SortedClientTags = dReq.SortedClientTags\n", "\tif len(dReq.SortedClientTags) > 0 {\n\t\treq.SortedClientTags = dReq.SortedClientTags\n\t}\n", "pooled request keeps the previous client tags when the new request has none"),
 ("M13b", ["C13", "C02"], "rules/match.go", "\tfiltered = rules[:i:i]\n", "\tfiltered = rules[:i]\n", "removeDNSRewriteRules appends into the caller's slice"),
 ("M14a", ["C14"], "filterlist/rulelist.go", "func (l *FileRuleList) RetrieveRule(ruleIdx int) (rules.Rule, error) {\n\tl.Lock()\n\tdefer l.Unlock()\n", "func (l *FileRuleList) RetrieveRule(ruleIdx int) (rules.Rule, error) {\n", "file list mutex removed (seek/read no longer atomic)"),
 ("M14b", ["C14"], "filterlist/storage.go", "\t\t\tif cached, found := s.cache[storageIdx]; found {", "\t\t\tif cached, found := s.cache[storageIdx]; found && false {", "re-check under the write lock removed (D13 back)"),
 ("M14c", ["C14"], "filterlist/storage.go", "\t\ts.cacheMu.RLock()\n\t\tdefer s.cacheMu.RUnlock()\n", "", "cache read without the read lock"),
 ("M14d", ["C14", "C13"], "dnsengine.go", "\treq = d.pool.Get()\n", "\treq = sharedReq\n", "one shared request object instead of the pool", ("dnsengine.go", "// DNSResult is the result of matching a DNS filtering request.", "var sharedReq = &rules.Request{}\n\n// DNSResult is the result of matching a DNS filtering request.")),
 ("M15a", ["C15"], "cosmeticengine.go", "\t\tif rule.Match(hostname) {\n\t\t\treturn true\n\t\t}\n\t}\n\n\treturn false\n}", "\t\tif rule != nil {\n\t\t\treturn true\n\t\t}\n\t}\n\n\treturn false\n}", "exception applies whatever the hostname"),
 ("M15b", ["C15"], "cosmeticengine.go", "if !c.isWhitelisted(hostname, rule) && rule.Match(hostname) {", "if !c.isWhitelisted(hostname, rule) {", "generic pass ignores ~excluded hostnames"),
 ("M16a", ["C16"], "rules/match.go", "\t\toption = option &^ CosmeticOptionGenericCSS\n\t}\n\n\tif m.BasicRule.IsOptionEnabled(OptionJsinject)", "\t\toption = option ^ CosmeticOptionGenericCSS\n\t}\n\n\tif m.BasicRule.IsOptionEnabled(OptionJsinject)", "generichide toggles again (D3 back)"),
 ("M16b", ["C16"], "rules/network.go", "\t\t_ = f.setOptionEnabled(OptionJsinject, true)\n", "", "$document no longer disables scripts"),
 ("M17a", ["C17"], "filterutil/util.go", 'nextIdx := strings.IndexAny(url[firstIdx:], "/:?")', 'nextIdx := strings.IndexAny(url[firstIdx:], "/:")', "ExtractHostname ignores '?'"),
 ("M17b", ["C17"], "rules/request.go", "\tif r.SourceDomain != \"\" && r.SourceDomain != r.Domain {", "\tif r.SourceDomain != \"\" && r.SourceHostname != r.Hostname && r.SourceDomain != r.Domain {", "harmless-looking extra condition (no effect) -- expected NOT detected", ),
 ("M17c", ["C17"], "rules/request.go", "\treturn hostname[1+strings.LastIndex(hostname[:i], \".\"):]", "\tj := strings.LastIndex(hostname[:i], \".\")\n\tif j > 0 {\n\t\tj = strings.LastIndex(hostname[:j], \".\")\n\t}\n\treturn hostname[1+j:]", "registrable domain keeps one label too many"),
 ("M18a", ["C18"], "rules/host.go", "ruleText = ruleText[:commentIndex]", "ruleText = ruleText[0 : commentIndex-1]", "comment strip drops a character (D4 back)"),
 ("M18b", ["C18", "C02"], "dnsengine.go", "\t\tif hostRule.IP.Is4() {", "\t\tif hostRule.IP.Is4() || hostRule.IP.Is4In6() {", "IPv4-mapped addresses reported as IPv4"),
 ("M19a", ["C19"], "lookup/shortcutstable.go", "if rule == nil || ruleIn(rule, result) || !rule.Match(r) {", "if ruleIn(rule, result) || !rule.Match(r) {", "nil rule (unreadable list) not skipped in the shortcut table"),
 ("M19b", ["C19"], "dnsengine.go", "if rule != nil && rule.Match(hostname) {", "if rule.Match(hostname) {", "nil host rule (unreadable list) not skipped"),
 ("M20a", ["C20"], "proxy/htmlfilter.go", "\tres.ContentLength = int64(len(b))\n", "\tres.ContentLength = int64(len(modifiedBody))\n", "Content-Length taken from the transcoded string"),
 ("M20b", ["C20"], "proxy/htmlfilter.go", "\tcnt := int(math.Min(headBufferSize, float64(len(body))))", "\tcnt := int(math.Min(headBufferSize, float64(len(body)-8)))", "window shortened: marker in the last bytes of a short body missed"),
 ("M20c", ["C20"], "proxy/htmlfilter.go", "\tbody, err := proxyutil.DecodeLatin1(bytes.NewReader(b))", "\tbody, err := string(b), error(nil)", "body treated as UTF-8 instead of Latin-1 (re-encoding mangles bytes)"),
]

EXPECT_MISSED = {"M17b", "M11b"}  # semantically harmless changes: a check must NOT fire


def sh(cmd, **kw):
    return subprocess.run(cmd, shell=True, capture_output=True, text=True, errors="replace", env=ENV, **kw)


def revert():
    sh(f"git -C {REPO} checkout -- . && git -C {REPO} clean -fdq")


def suite_passes():
    if os.environ.get("SELFTEST_NO_SUITE"):
        return True, "(suite run skipped: confirmed at import)"
    r = sh(f"cd {REPO} && go build ./... && go test -vet=off -count=1 ./... 2>&1")
    return r.returncode == 0 and "FAIL" not in r.stdout, r.stdout[-800:]


def run_check(prop):
    t = time.time()
    r = sh(f"VERIF_DEADLINE={os.environ.get('SELFTEST_DEADLINE', '120s')} /verif/run.sh {prop} quick 2>&1")
    lines = [l for l in r.stdout.splitlines() if l.startswith("VIOLATION") or l.startswith("  ")]
    return r.returncode, lines[:4], round(time.time() - t, 1)


def apply_edit(edits):
    for f, old, new in edits:
        p = os.path.join(REPO, f)
        s = open(p).read()
        if s.count(old) != 1:
            return f"pattern occurs {s.count(old)} times in {f}"
        open(p, "w").write(s.replace(old, new, 1))
    return None


def record(rec):
    with open("/verif/selftest_results.jsonl", "a") as f:
        f.write(json.dumps(rec) + "\n")
    print(json.dumps(rec)[:400], flush=True)


def run_mutant(m):
    mid, props, f, old, new, desc = m[:6]
    edits = [(f, old, new)] + [tuple(x) for x in m[6:]]
    revert()
    err = apply_edit(edits)
    rec = {"id": mid, "kind": "builtin", "desc": desc, "expected": props}
    try:
        if err:
            rec["error"] = err
            return record(rec)
        ok, tail = suite_passes()
        rec["suite_passes"] = ok
        if not ok:
            rec["suite_tail"] = tail
            return record(rec)
        rec["results"] = {}
        for p in props:
            code, lines, secs = run_check(p)
            rec["results"][p] = {"exit": code, "secs": secs, "first": lines[:2]}
        rec["detected"] = any(v["exit"] == 1 for v in rec["results"].values())
        rec["harness_error"] = any(v["exit"] not in (0, 1) for v in rec["results"].values())
        record(rec)
    finally:
        revert()


def run_seeded(sid, base="/verif/seeded"):
    d = f"{base}/{sid}"
    meta = json.load(open(f"{d}/meta.json"))
    props = meta.get("checks", [meta["property"]])
    if os.environ.get("SELFTEST_CHECKS"):
        props = os.environ["SELFTEST_CHECKS"].split(",")
    if os.environ.get("SELFTEST_RELATED") and meta.get("checks_related"):
        # the checks of every property anchored in a file the change touches, the own one excepted
        props = [p for p in meta["checks_related"] if p != meta["property"]]
        if not props:
            return
    revert()
    rec = {"id": sid, "kind": "seeded" if not os.environ.get("SELFTEST_CHECKS") else "seeded-cross", "desc": meta.get("what", ""), "expected": props}
    if meta.get("kind") == "neutral":
        # a behaviour-preserving change: every check must stay silent ("detected" would be a false alarm)
        rec["kind"] = "neutral"
    try:
        r = sh(f"git -C {REPO} apply {d}/patch.diff")
        if r.returncode != 0:
            rec["error"] = "patch does not apply: " + r.stderr[-300:]
            return record(rec)
        ok, tail = suite_passes()
        rec["suite_passes"] = ok
        if not ok:
            rec["suite_tail"] = tail
            return record(rec)
        rec["results"] = {}
        for p in props:
            code, lines, secs = run_check(p)
            rec["results"][p] = {"exit": code, "secs": secs, "first": lines[:2]}
        rec["detected"] = any(v["exit"] == 1 for v in rec["results"].values())
        rec["harness_error"] = any(v["exit"] not in (0, 1) for v in rec["results"].values())
        record(rec)
    finally:
        revert()


if __name__ == "__main__":
    import atexit, shutil
    snap = f"/verif/.work/engine-snap-{os.getpid()}"
    shutil.copytree(os.environ.get("SELFTEST_ENGINE_SRC", "/verif/engine"), snap)
    ENV["VERIF_ENGINE"] = snap  # checks are built from this frozen copy: /verif/engine may be edited meanwhile
    if REPO != "/repo":
        # the engine module replaces the library by path: point the copy at the scratch worktree
        gm = open(f"{snap}/go.mod").read().replace("=> /repo", f"=> {REPO}")
        open(f"{snap}/go.mod", "w").write(gm)
        ENV["VERIF_REPO"] = REPO
    atexit.register(lambda: shutil.rmtree(snap, ignore_errors=True))
    args = sys.argv[1:]
    if sh(f"git -C {REPO} status --porcelain").stdout.strip():
        print("refusing to run: /repo working tree is not clean"); sys.exit(2)
    if args and args[0] == "--neutral":
        for sid in args[1:] or sorted(os.listdir("/verif/neutral")):
            run_seeded(sid, "/verif/neutral")
    elif args and args[0] == "--seeded":
        ids = args[1:] or sorted(os.listdir("/verif/seeded"))
        for sid in ids:
            run_seeded(sid)
    else:
        for m in MUTANTS:
            if not args or m[0] in args:
                run_mutant(m)
