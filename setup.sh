#!/bin/bash
# Offline setup after a fresh restore: warm the Go build cache for the check
# binary (with the overlay and the verif tag) so that every later run.sh
# invocation only relinks.
set -u
export GOFLAGS=-mod=mod GOPROXY=off GOSUMDB=off GOTOOLCHAIN=local
V=/verif
mkdir -p "$V/.work/setup" "$V/evidence" "$V/replays"
cd "$V/engine" || exit 1
cp /repo/go.sum go.sum
go run ./cmd/mkoverlay -repo /repo -shim "$V/engine/shim" -out "$V/.work/setup" || exit 1
go build -tags verif -overlay "$V/.work/setup/overlay.json" -o "$V/.work/setup/check" ./cmd/check || exit 1
# warm the -race build used by the auxiliary pass of C14
go run ./cmd/mkoverlay -repo /repo -noshim -out "$V/.work/setup" || exit 1
go build -race -tags verif -overlay "$V/.work/setup/overlay.json" -o "$V/.work/setup/racepass" ./cmd/racepass || exit 1
rm -rf "$V/.work/setup"
echo "setup ok"
